"""C07 - calibration files round-trip (vnacal_save then vnacal_load gives an equivalent vnacal_t).

1. Coq: translator T4 (translate/savebuf.py) regenerates coq/Gen/SaveBufGen.v from vnacal_save.c,
   the precision setters and vnacal.h; CalFile/NumText.v, CalFile/CalFileModel.v, CalFile/CalFileProofs.v and
   Properties_C07.v are rebuilt (obligations), the generated constants are validated against the
   compiled code (sizes of the formatted texts).
2. C-side round trip against an independent oracle (lib/calfile_lib.py: layout tables, writer, reader
   over the libyaml node tree dumped by harness/yamltree.c):
     independent writer -> vnacal_load -> getters        == what was written            (exact)
     add / replace / delete histories (+ solve path)    == python slot model
     vnacal_save at precisions 1..40, MAX, default       -> node tree -> independent reader:
        names, order, types, dims, properties; every number text equals the correctly rounded
        C99 text of the value at that precision (python's formatter) and parses to within
        10^(1-p) relative, bit-exact at VNACAL_MAX_PRECISION
     vnacal_load of the saved file                       == independent reader's values  (exact)
     vnacal_apply_m with the loaded calibration          == with the original (bit-exact when both
        precisions >= 17 or MAX; within 1e3 * 10^(1-p) for well-conditioned terms otherwise)
     legacy documents (#VNACAL 2.x 'e' triples, #VNACAL 3.x) and tests/compat-V2.vnacal load to the
     same terms as the 1.0 document.
   Everything runs under ASan/UBSan/LSan.
"""
import math
import os
import re

import vplib
import calfile_lib as L

PLIST = [None] + list(range(1, 41)) + [L.MAXP]
DEFAULT_FP_DP = None        # filled from the translator (defaults as coded)


# --------------------------------------------------------------------------- generators
def rnd_mag(rng):
    k = rng.random()
    if k < 0.08:
        return 0.0
    if k < 0.12:
        return -0.0
    if k < 0.80:
        return rng.uniform(-2, 2)
    return rng.uniform(-1, 1) * 10.0 ** rng.randint(-30, 30)


def rnd_cx(rng):
    return complex(rnd_mag(rng), rnd_mag(rng))


def gen_fvec(rng, F):
    """Ascending frequencies that stay distinct even at one significant digit."""
    out = []
    dec = rng.randint(0, 9)
    d = rng.randint(1, 3)
    for _ in range(F):
        out.append(d * 10.0 ** dec * (1 + rng.uniform(-0.04, 0.04)))
        d += rng.randint(1, 3)
        if d > 9:
            d = rng.randint(1, 2)
            dec += 1
    if F and rng.random() < 0.15:
        out[0] = 0.0
    return out


HOSTILE = ["", " ", "a b", "x: y", "# not a comment", "'single'", '"double"', " lead", "trail ", "two\nlines",
           "null", "~", "true", "1e3", "- dash", "[a]", "{b}", "éè 中", "a\\b", "%YAML", "key=value", "&anchor", "*alias", "|", ">"]
KEYS = ["a", "b", "title", "Date", "x1", "long_key-name", "k7", "K", "\u00e9t\u00e9"]
# keys that need quoting in a property expression and in the saved YAML (reserved characters, leading
# digit, leading / trailing space, backslash, UTF-8)
HKEYS = ["cable.type", "a[0]", "{x}", "k=v", "#tag", "7up", " lead", "trail ", "back\\slash", "x y", "\u00e9.\u00e8", "[", "=", ".", "a.b.c"]
NAMES = ["cal", "ab", "default", "A B", "x:y", "über", " lead", "#1", "'q'", "-", "[0]", "null", "~", "two\nlines", "n=1"]


def gen_props(rng, depth=0, hostile=True):
    k = rng.random()
    if depth >= 3 or k < 0.35:
        if rng.random() < 0.15:
            return None
        return rng.choice(HOSTILE) if (hostile and rng.random() < 0.5) else "v%d" % rng.randint(0, 999)
    if k < 0.75:
        d = {}
        for key in rng.sample(KEYS + (HKEYS if hostile else []), rng.randint(0, 4)):
            d[key] = gen_props(rng, depth + 1, hostile)
        return d
    return [gen_props(rng, depth + 1, hostile) for _ in range(rng.randint(0, 3))]


def ideal_terms(rng, t, mr, mc, F):
    """Error terms of a nearly ideal VNA (well conditioned for apply)."""
    ports = max(mr, mc)
    nt = L.n_terms(t, mr, mc)
    terms = [[complex(rng.uniform(-0.05, 0.05), rng.uniform(-0.05, 0.05)) for _ in range(F)] for _ in range(nt)]

    def bump(idx):
        for fi in range(F):
            terms[idx][fi] += 1.0
    for nm, kind, r, c, cells in L.file_matrices(t, mr, mc):
        unit = (t in ("T8", "TE10", "T16") and nm in ("ts", "tm")) or \
               (t in ("U8", "UE10", "U16", "UE14") and nm in ("um", "us")) or (t == "E12" and nm == "er")
        if not unit:
            continue
        if kind == "v":
            for idx in cells:
                bump(idx)
        elif t in ("UE14", "E12"):
            for idx in cells:
                bump(idx)
        else:
            for i in range(r):
                for j in range(c):
                    if i == j:
                        bump(cells[i * c + j])
    return terms


def gen_cal(rng, name, t=None, dims=None, F=None, ideal=False, maxdim=4, subnormal=False):
    if t is None:
        t = rng.choice(L.TYPES)
    if dims is None:
        while True:
            mr, mc = rng.randint(1, maxdim), rng.randint(1, maxdim)
            if L.dims_ok(t, mr, mc):
                break
    else:
        mr, mc = dims
    if F is None:
        F = rng.choice([0, 1, 1, 2, 2, 3, 4, 6])
    nt = L.n_terms(t, mr, mc)
    if ideal:
        terms = ideal_terms(rng, t, mr, mc, F)
    else:
        terms = [[rnd_cx(rng) for _ in range(F)] for _ in range(nt)]
        if subnormal and F:
            terms[0][0] = complex(5e-324, -2.5e-310)
            terms[-1][-1] = complex(1.7976931348623157e308, 2.2250738585072014e-308)
    z0 = rng.choice([complex(50.0, 0.0), complex(75.0, -2.5), complex(rng.uniform(1, 200), rng.uniform(-50, 50)), None])
    props = rng.choice(["absent", None]) if rng.random() < 0.3 else gen_props(rng)
    return {"name": name, "type": t, "rows": mr, "cols": mc, "F": F, "z0": z0, "fvec": gen_fvec(rng, F),
            "terms": terms, "props": props, "ideal": ideal}


def loaded_view(c):
    """What vnacal_load makes of a written calibration."""
    d = dict(c)
    d["z0"] = complex(50.0, 0.0) if c["z0"] is None else c["z0"]
    d["props"] = None if c["props"] == "absent" else c["props"]
    return d


def add_common(slots, cal):
    for i, s in enumerate(slots):
        if s is not None and s["name"] == cal["name"]:
            slots[i] = cal
            return i
    for i, s in enumerate(slots):
        if s is None:
            slots[i] = cal
            return i
    n = len(slots)
    new = 1 if n == 0 else (8 if n == 1 else 2 * n)
    slots.extend([None] * (new - n))
    slots[n] = cal
    return n


def hx(s):
    b = s.encode("utf-8", "surrogateescape")
    return b.hex() if b else "-"


# --------------------------------------------------------------------------- comparisons
def cmp_cal(exp, got, where, diffs, exact=True):
    for k in ("name", "type", "rows", "cols", "F"):
        if exp[k] != got[k]:
            diffs.append("%s: %s expected %r got %r" % (where, k, exp[k], got[k]))
            return
    if not (L.same_bits(exp["z0"].real, got["z0"].real) and L.same_bits(exp["z0"].imag, got["z0"].imag)):
        diffs.append("%s: z0 expected %r got %r" % (where, exp["z0"], got["z0"]))
    if len(got["fvec"]) != exp["F"] or any(not L.same_bits(a, b) for a, b in zip(exp["fvec"], got["fvec"])):
        diffs.append("%s: frequency vector expected %r got %r" % (where, exp["fvec"], got["fvec"]))
    if len(got["terms"]) != len(exp["terms"]):
        diffs.append("%s: %d error terms, expected %d" % (where, len(got["terms"]), len(exp["terms"])))
        return
    for t, (a, b) in enumerate(zip(exp["terms"], got["terms"])):
        for fi, (x, y) in enumerate(zip(a, b)):
            if not (L.same_bits(x.real, y.real) and L.same_bits(x.imag, y.imag)):
                diffs.append("%s: term %d at findex %d expected %r got %r" % (where, t, fi, x, y))
                return
    if exp["props"] != got["props"]:
        diffs.append("%s: properties expected %r got %r" % (where, exp["props"], got["props"]))


def cmp_state(exp_slots, exp_gprops, st, where, diffs):
    exp = list(exp_slots)
    while exp and exp[-1] is None:
        exp.pop()
    if st is None:
        diffs.append("%s: no object" % where)
        return
    if st["end"] != len(exp) or len(st["slots"]) != len(exp):
        diffs.append("%s: calibration_end %d, expected %d" % (where, st["end"], len(exp)))
        return
    for i, (e, g) in enumerate(zip(exp, st["slots"])):
        if (e is None) != (g is None):
            diffs.append("%s: slot %d %s, expected %s" % (where, i, "empty" if g is None else "used", "empty" if e is None else "used"))
            return
        if e is not None:
            cmp_cal(e, g, "%s slot %d" % (where, i), diffs)
    if exp_gprops != st["gprops"]:
        diffs.append("%s: global properties expected %r got %r" % (where, exp_gprops, st["gprops"]))


def check_saved(ctx, slots, gprops, fp, dp, doc, diffs):
    """Saved text against the state it was saved from.  Returns the reader's calibrations with
    parsed values (the expected content of a load of this file)."""
    probs = []
    if doc["first"] != b"#VNACal 1.0\n":
        diffs.append("saved file: first line %r" % (doc["first"],))
    if doc["error"] or doc["root"] is None:
        diffs.append("saved file does not parse: %r" % (doc["error"],))
        return None, None
    g, cals = L.read_saved_doc(doc["root"], probs)
    for p in probs:
        diffs.append("saved file: " + p)
    if probs:
        return None, None
    exp = [s for s in slots if s is not None]
    if len(cals) != len(exp):
        diffs.append("saved file has %d calibrations, expected %d" % (len(cals), len(exp)))
        return None, None
    if g != gprops:
        diffs.append("saved file: global properties %r, expected %r" % (g, gprops))
    out = []
    for i, (e, c) in enumerate(zip(exp, cals)):
        w = "saved calibration %d (%s %dx%d)" % (i, e["type"], e["rows"], e["cols"])
        for k in ("name", "type", "rows", "cols", "F"):
            if e[k] != c[k]:
                diffs.append("%s: %s %r, expected %r" % (w, k, c[k], e[k]))
                return None, None
        if c["props"] != e["props"]:
            diffs.append("%s: properties %r, expected %r" % (w, c["props"], e["props"]))
        lc = dict(c)

        def num_c(text, val, what):
            want = L.fmt_c(val, dp)
            z = L.parse_cx(text)
            if text != want:
                diffs.append("%s: %s text %r, expected %r (dprecision %d)" % (w, what, text, want, dp))
            if z is None:
                diffs.append("%s: %s text %r is not a number" % (w, what, text))
                return complex(float("nan"), 0)
            for a, b in ((z.real, val.real), (z.imag, val.imag)):
                if dp == L.MAXP or dp >= 17:
                    if not L.same_bits(a, b):
                        diffs.append("%s: %s %r does not reproduce %r exactly at dprecision %d" % (w, what, text, val, dp))
                elif not L.within(a, b, dp):
                    diffs.append("%s: %s %r not within 10^(1-%d) of %r" % (w, what, text, dp, val))
            return z
        lc["z0"] = num_c(c["z0_text"], e["z0"], "z0")
        lc["fvec"] = []
        for fi in range(e["F"]):
            text = c["f_text"][fi]
            want = L.fmt_f(e["fvec"][fi], fp)
            v = L.parse_real(text)
            if text != want:
                diffs.append("%s: f[%d] text %r, expected %r (fprecision %d)" % (w, fi, text, want, fp))
            if v is None:
                diffs.append("%s: f[%d] text %r is not a number" % (w, fi, text))
                v = float("nan")
            elif fp == L.MAXP or fp >= 17:
                if not L.same_bits(v, e["fvec"][fi]):
                    diffs.append("%s: f[%d] %r does not reproduce %r exactly" % (w, fi, text, e["fvec"][fi]))
            elif not L.within(v, e["fvec"][fi], fp):
                diffs.append("%s: f[%d] %r not within 10^(1-%d) of %r" % (w, fi, text, fp, e["fvec"][fi]))
            lc["fvec"].append(v)
        lc["terms"] = []
        for t in range(len(e["terms"])):
            row = []
            for fi in range(e["F"]):
                tx = c["term_text"][t][fi]
                if tx is None:
                    diffs.append("%s: error term %d at findex %d is not in the file" % (w, t, fi))
                    row.append(complex(float("nan"), 0))
                else:
                    row.append(num_c(tx, e["terms"][t][fi], "term %d f[%d]" % (t, fi)))
            lc["terms"].append(row)
        if len(diffs) > 20:
            return None, None
        out.append(lc)
    return g, out


# --------------------------------------------------------------------------- scenarios
class Scenario(object):
    pass


def history_plans(thorough):
    """Systematic add / delete / replace histories: (number of calibrations, deleted positions,
    position whose name is added again, then one more new name).  Every (deleted, replaced) pair."""
    plans = []
    for n in ((3, 4) if not thorough else (2, 3, 4, 5, 9)):
        for dpos in range(n):
            for rpos in range(n):
                if rpos != dpos:
                    plans.append((n, [dpos], rpos))
    plans += [(4, [0, 2], 3), (4, [0, 1], 2), (5, [1, 3], 4), (4, [1, 2], 0), (9, [0, 8], 4), (9, [3], 8)]
    return plans


def build_scenario(ctx, rng, idx, d, thorough, plan=None):
    """Returns a Scenario with script lines, files to write and the expected python model."""
    sc = Scenario()
    sc.idx = idx
    sc.files = {}
    sc.lines = []
    sc.notes = []
    pa = os.path.join(d, "a%d.vnacal" % idx)
    pb = os.path.join(d, "b%d.vnacal" % idx)
    sc.out = os.path.join(d, "o%d.vnacal" % idx)
    sc.out2 = os.path.join(d, "p%d.vnacal" % idx)
    fp = PLIST[idx % len(PLIST)]
    dp = PLIST[(idx * 5 + 3) % len(PLIST)]
    if idx % 7 == 3:
        dp = fp                              # include the diagonal (both MAX, both 40, ...)
    sc.fp, sc.dp = fp, dp
    # coverage: the first scenarios walk through every type x dims once
    grid = [(t, r, c) for t in L.TYPES for r in range(1, 4) for c in range(1, 4) if L.dims_ok(t, r, c)]
    k = rng.choice([0, 1, 1, 2, 3, 4]) if idx >= len(grid) else rng.choice([1, 2, 3])
    if plan is not None:
        k = plan[0]
    style = rng.choice(["hex", "dec"])
    cals = []
    names = rng.sample(NAMES, min(len(NAMES), k + 2))
    for i in range(k):
        nm = names[i]
        if plan is not None:
            cals.append(gen_cal(rng, nm, ideal=rng.random() < 0.5, maxdim=2, F=rng.choice([1, 2])))
            continue
        if i > 0 and rng.random() < 0.2:
            nm = cals[rng.randrange(len(cals))]["name"]          # duplicate name: replaced while loading
        if i == 0 and idx < len(grid):
            t, r, c = grid[idx]
            cal = gen_cal(rng, nm, t, (r, c), F=rng.choice([1, 2, 3]), ideal=(idx % 2 == 0))
        else:
            cal = gen_cal(rng, nm, ideal=rng.random() < 0.4, maxdim=4 if thorough else 3,
                          subnormal=(dp is not None and dp >= 17 and rng.random() < 0.3))
        cals.append(cal)
    gprops = None if rng.random() < 0.2 else gen_props(rng)
    omit = gprops is None and rng.random() < 0.5
    sc.files[pa] = L.write_vnacal(cals, gprops, style=style, omit_gprops=omit)
    slots = []
    for c in cals:
        add_common(slots, loaded_view(c))
    sc.lines.append("load 0 %s" % pa)
    sc.expect_loaded = ([None if s is None else dict(s) for s in slots], gprops)
    sc.lines.append("dump 0")
    # history
    hist = rng.random()
    if plan is not None:
        hist = 2.0
        n, dels, rpos = plan
        for ci in dels:
            sc.lines.append("delete 0 %d" % ci)
            slots[ci] = None
        # the same name again (different type / dimensions / z0 / terms): replaces in place, whatever holes
        # lie below it; then a new name: takes the first hole
        bc = [gen_cal(rng, "src0", ideal=rng.random() < 0.5, maxdim=3), gen_cal(rng, "src1", maxdim=2)]
        sc.files[pb] = L.write_vnacal(bc, None, style="hex")
        sc.lines.append("load 1 %s" % pb)
        for i, nm in enumerate([cals[rpos]["name"], "fresh name"]):
            sc.lines.append("xfer 1 %d 0 %s" % (i, hx(nm)))
            v = loaded_view(bc[i])
            v["name"] = nm
            add_common(slots, v)
        sc.lines.append("free 1")
        sc.notes += ["delete", "replace@%d,holes%s" % (rpos, dels), "add"]
    if hist < 0.5 and any(s is not None for s in slots):
        live = [i for i, s in enumerate(slots) if s is not None]
        for ci in rng.sample(live, rng.randint(1, min(2, len(live)))):
            sc.lines.append("delete 0 %d" % ci)
            slots[ci] = None
            sc.notes.append("delete")
    if 0.3 < hist <= 1.0:
        nb = rng.randint(1, 2)
        bc = []
        for i in range(nb):
            bc.append(gen_cal(rng, "src%d" % i, ideal=rng.random() < 0.5, maxdim=3))
        sc.files[pb] = L.write_vnacal(bc, None, style="hex")
        sc.lines.append("load 1 %s" % pb)
        for i, c in enumerate(bc):
            live = [s["name"] for s in slots if s is not None]
            if live and rng.random() < 0.4:
                nm = rng.choice(live)
                sc.notes.append("replace")
            else:
                nm = rng.choice(NAMES) + str(i)
                sc.notes.append("add")
            sc.lines.append("xfer 1 %d 0 %s" % (i, hx(nm)))
            v = loaded_view(c)
            v["name"] = nm
            add_common(slots, v)
        sc.lines.append("free 1")
    # property sets through the API
    for _ in range(rng.randint(0, 2)):
        ci = rng.choice([-1] + [i for i, s in enumerate(slots) if s is not None])
        cur = gprops if ci == -1 else slots[ci]["props"]
        if cur is None or isinstance(cur, dict):
            key, val = rng.choice(KEYS + HKEYS), "val %d" % rng.randint(0, 99)
            sc.lines.append("pset 0 %d %s" % (ci, hx("%s=%s" % (L.quote_key(key), val))))
            new = dict(cur or {})
            new[key] = val
            if ci == -1:
                gprops = new
            else:
                slots[ci] = dict(slots[ci])
                slots[ci]["props"] = new
    if fp is not None:
        sc.lines.append("setfp 0 %d" % fp)
    if dp is not None:
        sc.lines.append("setdp 0 %d" % dp)
    sc.lines.append("dump 0")
    sc.lines.append("save 0 %s" % sc.out)
    sc.lines.append("load 2 %s" % sc.out)
    sc.lines.append("dump 2")
    sc.slots, sc.gprops = slots, gprops
    # apply on every applicable calibration, original and reloaded
    sc.applies = []
    packed = [s for s in slots if s is not None]
    for ci, s in enumerate(slots):
        if s is None or s["F"] < 1:
            continue
        ports = max(s["rows"], s["cols"])
        if s["rows"] != s["cols"] and ports != 2:
            continue
        m = [[complex(rng.uniform(-1, 1), rng.uniform(-1, 1)) for _ in range(s["F"])] for _ in range(ports * ports)]
        sc.applies.append((ci, packed.index(s), s, m))
    sc.lines.append("APPLY")            # placeholder: the frequency vectors depend on the reload
    sc.lines.append("free 0")
    sc.lines.append("free 2")
    sc.lines.append("leak")
    return sc


def apply_cmd(slot, ci, fvec, m):
    return "apply %d %d %d %s %s" % (slot, ci, len(fvec), " ".join(float.hex(f) for f in fvec),
                                     " ".join("%s %s" % (float.hex(z.real), float.hex(z.imag)) for row in m for z in row))


def parse_apply(line):
    m = re.match(r"apply rc=(-?\d+) errno=(\S+) S(.*)$", line)
    vals = [complex(float.fromhex(a), float.fromhex(b)) for a, b in (x.split(",") for x in m.group(3).split())]
    return int(m.group(1)), m.group(2), vals


def sig_of(cr):
    return dict(cr.crash[2])


def run(ctx):
    ctx.level = "proof"
    thorough = ctx.tier == "thorough"
    rng = ctx.rng
    import c07_coq
    defaults = c07_coq.run(ctx)           # translator, Coq obligations, NumText tie; returns default precisions as coded
    ctx.trusted_base += [
        "libyaml (emitter and parser) preserves the node tree; harness/yamltree.c (libyaml only) supplies the tree to the independent reader",
        "glibc printf/strtod and CPython's float formatting/parsing are both correctly rounded (they are compared with each other on every number)",
        "lib/calfile_lib.py: independent layout tables, writer and reader written from vnacal(3)/vnacal_layout.h comments",
        "gcc, ASan/UBSan/LSan for the harness",
    ]
    ctx.rule = ("one evaluation = one scenario (written file(s) -> load -> history -> save at (fprecision, dprecision) -> "
                "independent read -> reload -> apply); distinct non-trivial = (type, rows, cols, F, fprecision, dprecision, history kinds) "
                "of scenarios whose container held at least one calibration when saved")
    exe = ctx.build_harness("calfile_harness", san=True, wrap=True)
    ytree = ctx.build_harness("yamltree", san=True)
    d = os.path.join(ctx.tmp, "c07")
    os.makedirs(d)
    n = 160 if not thorough else 1500
    fpd, dpd = defaults
    scs = [build_scenario(ctx, rng, i, d, thorough) for i in range(n)]
    for plan in history_plans(thorough):
        scs.append(build_scenario(ctx, rng, len(scs), d, thorough, plan=plan))
    n = len(scs)
    for sc in scs:
        for p, txt in sc.files.items():
            with open(p, "w") as f:
                f.write(txt)

    # ---- pass 1: everything up to the reload (apply needs the reloaded frequency vectors)
    def script(scs, with_apply):
        out = []
        for sc in scs:
            out.append("case %d" % sc.idx)
            for ln in sc.lines:
                if ln == "APPLY":
                    if with_apply:
                        out.extend(sc.apply_lines)
                else:
                    out.append(ln)
        return "\n".join(out) + "\n"
    res = L.run_script(ctx, exe, script(scs, False), n, timeout=900 if not thorough else 3000)
    # node trees of all saved files
    rc, tout, terr = vplib.sh([ytree, "cal", "-"], input="".join(sc.out + "\n" for sc in scs if os.path.exists(sc.out)),
                              timeout=600, env=ctx.run_env(leak=True))
    if rc != 0:
        ctx.obligation("tie:yamltree", False, "yamltree failed rc=%d %s" % (rc, terr[-300:]))
    trees = L.parse_tree_dump(tout)
    nviol = [0]

    seen_sig = {}

    def violate(sc, kind, what, extra=None, sig=None):
        s = sig or {"kind": kind, "class": what.split(":")[0][:60]}
        key = repr(sorted(s.items()))
        seen_sig[key] = seen_sig.get(key, 0) + 1
        nviol[0] += 1
        if seen_sig[key] > 2 or len(seen_sig) > 12:
            return
        rep = {"scenario": sc.idx, "fprecision": sc.fp, "dprecision": sc.dp, "script": sc.lines,
               "files": {os.path.basename(p): t for p, t in sc.files.items()}, "seed": ctx.seed}
        if extra:
            rep.update(extra)
        ctx.violation(s, "C07 scenario %d (fprecision=%s dprecision=%s): %s" % (sc.idx, sc.fp, sc.dp, what[:400]), rep)
    good = []
    for sc in scs:
        cr = res.get(sc.idx)
        efp = fpd if sc.fp is None else sc.fp
        edp = dpd if sc.dp is None else sc.dp
        sc.efp, sc.edp = efp, edp
        sc.apply_lines = []
        if cr is None:
            violate(sc, "harness", "case did not run")
            continue
        if cr.crash:
            sig = sig_of(cr)
            violate(sc, "fault", "sanitizer/crash: %s in %s" % (sig.get("error"), sig.get("function")),
                    {"stderr": cr.crash[1][-2500:]}, sig=sig)
            continue
        diffs = []
        try:
            lines = cr.lines
            i = 0
            assert lines[i].startswith("load ok"), lines[i]
            st, i = L.parse_dump(lines, i + 1)
            cmp_state(sc.expect_loaded[0], sc.expect_loaded[1], st, "load of the written file", diffs)
            while not lines[i].startswith("NCAL") and not lines[i].startswith("NOVCP"):
                if re.match(r"(delete|xfer|pset|set) rc=-1", lines[i]) or lines[i].startswith("load fail"):
                    diffs.append("history op failed: %s" % lines[i])
                i += 1
            st0, i = L.parse_dump(lines, i)
            cmp_state(sc.slots, sc.gprops, st0, "state after the history", diffs)
            if not lines[i].startswith("save rc=0"):
                diffs.append("vnacal_save failed: %s" % lines[i])
            i += 1
            doc = trees.get(sc.out)
            lcals = None
            if doc is None:
                diffs.append("saved file missing")
            elif not diffs:
                # the text is compared with the values the object holds (st0: numerically equal to the
                # expectation, but the loader may have turned a -0 into +0)
                g, lcals = check_saved(ctx, st0["slots"], sc.gprops, efp, edp, doc, diffs)
            if not lines[i].startswith("load ok"):
                diffs.append("vnacal_load of the saved file failed: %s" % lines[i])
                i += 1
                st2, i = L.parse_dump(lines, i)
            else:
                st2, i = L.parse_dump(lines, i + 1)
                if lcals is not None:
                    cmp_state(lcals, sc.gprops, st2, "reload of the saved file", diffs)
            sc.st2 = st2
            if lines[-1] != "leak 0":
                violate(sc, "fault", "leak: LeakSanitizer reports a leak after everything was freed (%s)" % lines[-1],
                        {"stderr": (res[sc.idx].leak_err or "")[:3000]}, sig=L.leak_sig(res[sc.idx].leak_err))
        except (AssertionError, IndexError, ValueError) as e:
            diffs.append("harness transcript not understood: %r" % (e,))
        if diffs:
            violate(sc, "roundtrip", diffs[0], {"differences": diffs[:10]})
            continue
        good.append(sc)
        packed = [s for s in sc.slots if s is not None]
        hist = tuple(sorted(set(sc.notes)))
        if packed:
            for s in packed:
                ctx.count((s["type"], s["rows"], s["cols"], s["F"], efp, edp, hist))
        else:
            ctx.count(None)
        ctx.traces_validated += 1
        if sc.idx < 3:
            ctx.sample({"scenario": sc.idx, "fprecision": efp, "dprecision": edp, "history": sc.notes,
                        "calibrations": [(s["name"], s["type"], s["rows"], s["cols"], s["F"]) for s in packed]})
        # apply lines: original at its own frequencies, reloaded at its own (rounded) frequencies
        for ci, pi, s, m in sc.applies:
            lf = sc.st2["slots"][pi]["fvec"]
            if any(b <= a for a, b in zip(lf, lf[1:])):
                continue
            sc.apply_lines.append(apply_cmd(0, ci, s["fvec"], m))
            sc.apply_lines.append(apply_cmd(2, pi, lf, m))

    # ---- pass 2: apply original vs reloaded (only scenarios that passed)
    ap = [sc for sc in good if sc.apply_lines]
    if ap:
        for j, sc in enumerate(ap):
            sc.idx2 = j
        txt = []
        for sc in ap:
            txt.append("case %d" % sc.idx2)
            for ln in sc.lines:
                if ln == "APPLY":
                    txt.extend(sc.apply_lines)
                elif ln.startswith("dump"):
                    continue
                else:
                    txt.append(ln)
        res2 = L.run_script(ctx, exe, "\n".join(txt) + "\n", len(ap), timeout=900 if not thorough else 3000)
        napply = 0
        for sc in ap:
            cr = res2.get(sc.idx2)
            if cr is None or cr.crash:
                sig = sig_of(cr) if cr is not None else {"kind": "harness"}
                violate(sc, "fault", "apply pass crashed: %s in %s" % (sig.get("error"), sig.get("function")),
                        {"stderr": cr.crash[1][-2500:] if cr else ""}, sig=sig)
                continue
            al = [ln for ln in cr.lines if ln.startswith("apply ")]
            exact = (sc.efp == L.MAXP or sc.efp >= 17) and (sc.edp == L.MAXP or sc.edp >= 17)
            k = 0
            for ci, pi, s, m in sc.applies:
                if k + 1 >= len(al):
                    break
                lf = sc.st2["slots"][pi]["fvec"]
                if any(b <= a for a, b in zip(lf, lf[1:])):
                    continue
                r0 = parse_apply(al[k])
                r1 = parse_apply(al[k + 1])
                k += 2
                napply += 1
                w = "apply with calibration %d (%s %dx%d)" % (ci, s["type"], s["rows"], s["cols"])
                if exact:
                    if r0[0] != r1[0] or len(r0[2]) != len(r1[2]) or any(
                            not (L.same_bits(a.real, b.real) and L.same_bits(a.imag, b.imag)) for a, b in zip(r0[2], r1[2])):
                        violate(sc, "apply", "%s: original and reloaded calibration give different S at exact precisions: %r vs %r"
                                % (w, r0[:2] + (r0[2][:2],), r1[:2] + (r1[2][:2],)))
                        break
                elif s.get("ideal") and min(sc.efp, sc.edp) >= 6:
                    if r0[0] != 0 or r1[0] != 0:
                        if r0[0] != r1[0]:
                            violate(sc, "apply", "%s: rc %d with the original, %d with the reloaded calibration" % (w, r0[0], r1[0]))
                            break
                        continue
                    tol = 1e3 * 10.0 ** (1 - min(sc.edp, 16))
                    scale = max([abs(a) for a in r0[2]] + [1.0])
                    worst = max(abs(a - b) for a, b in zip(r0[2], r1[2]))
                    # the frequencies moved by up to 10^(1-fp) relative; the terms were drawn independently per
                    # frequency so nothing is interpolated: both applies hit knots
                    if worst > tol * scale:
                        violate(sc, "apply", "%s: S differs by %.3g (> %.3g) between original and reloaded calibration" % (w, worst, tol * scale))
                        break
        ctx.extra["apply_comparisons"] = napply

    # ---- saver model (extracted save_doc) against the node tree of the files vnacal_save writes
    import c07_savetie
    c07_savetie.run(ctx, exe, ytree, d, (fpd, dpd))

    # ---- legacy versions and the sample of the test suite
    legacy(ctx, exe, ytree, d, violate_plain=lambda what, rep, sig=None: ctx.violation(
        sig or {"kind": "legacy", "class": what.split(":")[0][:60]}, "C07 legacy documents: " + what[:400], rep))

    # ---- legacy_versions: generator model of the 2.x tree and loader model on legacy / 3.x / refused documents
    import c07_legacy
    c07_legacy.run(ctx, exe, ytree, d)

    # ---- signed zeros / infinite parts through parse_complex (finding DJ92)
    signed_parts(ctx, exe, ytree, d)

    # ---- frequency grids that collide at the fprecision in force (known finding DJ91)
    collisions(ctx, exe, d)

    # ---- solve path
    solve_path(ctx, exe, ytree, d)
    ctx.extra["scenarios"] = n
    ctx.extra["scenarios_passed"] = len(good)


def legacy(ctx, exe, ytree, d, violate_plain):
    rng = ctx.rng
    cases = []
    for i in range(12 if ctx.tier == "quick" else 80):
        mr = rng.randint(1, 3)
        mc = rng.randint(1, mr)
        cals = [gen_cal(rng, "L%d_%d" % (i, j), "E12", (mr, mc), F=rng.choice([1, 2, 3])) for j in range(rng.randint(1, 2))]
        for c in cals:
            if c["props"] == "absent":
                c["props"] = None
        g = gen_props(rng)
        texts = {"1.0": L.write_vnacal(cals, g, style="hex", version="1.0"),
                 "3.0": L.write_vnacal(cals, g, style="hex", version="3.0"),
                 "3.7": L.write_vnacal(cals, g, style="dec", version="3.0", head="#VNACAL 3.7"),
                 "2.0": L.write_vnacal(cals, g, style="hex", version="2.0"),
                 "2.3": L.write_vnacal(cals, g, style="dec", version="2.0", head="#VNACAL 2.3")}
        cases.append((cals, g, texts))
    lines = []
    k = 0
    index = []
    for ci, (cals, g, texts) in enumerate(cases):
        for ver, txt in sorted(texts.items()):
            p = os.path.join(d, "leg%d_%s.vnacal" % (ci, ver))
            with open(p, "w") as f:
                f.write(txt)
            lines += ["case %d" % k, "load 0 %s" % p, "dump 0", "free 0", "leak"]
            index.append((ci, ver, p))
            k += 1
    compat = os.path.join(ctx.repo, "src", "tests", "compat-V2.vnacal")
    lines += ["case %d" % k, "load 0 %s" % compat, "dump 0", "setfp 0 1000", "setdp 0 1000",
              "save 0 %s" % os.path.join(d, "compat_out.vnacal"), "load 1 %s" % os.path.join(d, "compat_out.vnacal"),
              "dump 1", "free 0", "free 1", "leak"]
    res = L.run_script(ctx, exe, "\n".join(lines) + "\n", k + 1)
    for j, (ci, ver, p) in enumerate(index):
        cals, g, texts = cases[ci]
        cr = res.get(j)
        diffs = []
        if cr is None or cr.crash:
            sig = dict(cr.crash[2]) if cr else None
            violate_plain("version %s document: crash %r" % (ver, sig), {"file": texts[ver], "stderr": cr.crash[1][-2000:] if cr else ""}, sig)
            continue
        if not cr.lines[0].startswith("load ok"):
            violate_plain("version %s document does not load: %s" % (ver, cr.lines[0]), {"file": texts[ver]})
            continue
        st, _ = L.parse_dump(cr.lines, 1)
        slots = []
        for c in cals:
            add_common(slots, loaded_view(c))
        cmp_state(slots, g, st, "version %s document" % ver, diffs)
        if cr.lines[-1] != "leak 0":
            violate_plain("leak after loading a version %s document" % ver, {"file": texts[ver]}, L.leak_sig(cr.leak_err))
        if diffs:
            violate_plain("version %s: %s" % (ver, diffs[0]), {"file": texts[ver], "differences": diffs[:10]})
        else:
            ctx.count(("legacy", ver, cals[0]["rows"], cals[0]["cols"], cals[0]["F"]))
            ctx.traces_validated += 1
    # compat-V2.vnacal: the terms seen by an independent reading of the 'e' triples
    cr = res.get(k)
    rc, tout, terr = vplib.sh([ytree, "cal", compat], timeout=60, env=ctx.run_env())
    doc = L.parse_tree_dump(tout).get(compat)
    ok = False
    if cr is not None and not cr.crash and doc and doc["root"] is not None and cr.lines[0].startswith("load ok"):
        st, i = L.parse_dump(cr.lines, 1)
        exp = []
        root = doc["root"]
        for cn in root.get("sets").items:
            mr, mc, F = int(cn.get("rows").text), int(cn.get("columns").text), int(cn.get("frequencies").text)
            et = 3 * mr
            terms = [[None] * F for _ in range(mc * et)]
            fv = []
            for fi, it in enumerate(cn.get("data").items):
                fv.append(L.parse_real(it.get("f").text))
                e = it.get("e")
                for r in range(mr):
                    for c in range(mc):
                        trip = e.items[r].items[c].items
                        for kk in range(3):
                            terms[c * et + kk * mr + r][fi] = L.parse_cx(trip[kk].text)
            exp.append({"name": cn.get("name").text, "type": "E12", "rows": mr, "cols": mc, "F": F,
                        "z0": L.parse_cx(cn.get("z0").text), "fvec": fv, "terms": terms, "props": None})
        diffs = []
        cmp_state(exp, None, st, "tests/compat-V2.vnacal", diffs)
        # and it survives a save at MAX precision + reload
        while not cr.lines[i].startswith("save"):
            i += 1
        if not cr.lines[i].startswith("save rc=0") or not cr.lines[i + 1].startswith("load ok"):
            diffs.append("save/reload of compat-V2 failed: %s / %s" % (cr.lines[i], cr.lines[i + 1]))
        else:
            st2, _ = L.parse_dump(cr.lines, i + 2)
            cmp_state(exp, None, st2, "compat-V2 saved at MAX precision and reloaded", diffs)
        if diffs:
            violate_plain("compat-V2.vnacal: %s" % diffs[0], {"differences": diffs[:10]})
        else:
            ok = True
            ctx.count(("compat-V2", exp[0]["rows"], exp[0]["cols"], exp[0]["F"]))
            ctx.traces_validated += 1
    elif cr is not None and cr.crash:
        violate_plain("compat-V2.vnacal: crash %r" % (cr.crash[2],), {"stderr": cr.crash[1][-2000:]}, dict(cr.crash[2]))
    else:
        violate_plain("compat-V2.vnacal does not load: %s" % (cr.lines[:1] if cr else None), {})
    ctx.extra["compat_V2_checked"] = ok


def collisions(ctx, exe, d):
    """Finding DJ91: grids whose consecutive frequencies are distinct as stored but get the same text (or texts that
    read back not ascending) at the fprecision in force.  Generated: base 10^k (k = 3..10), spacings 1..4 units in the
    (fprecision + 1)-th .. (fprecision + 3)-th digit, fprecision default / 1..12, 2..4 frequencies, every type now and then;
    plus the same grids at a precision that separates them (controls: must round-trip).  For a colliding grid the
    property fails when vnacal_save succeeds and vnacal_load refuses the saved file: reported with the signature of
    known finding DJ91 (a save that fails, or a wider text that reloads, would both be fine: the repair is a design decision).
    Anything else - a control that does not round-trip, a collision-free grid refused - is an ordinary violation."""
    rng = ctx.rng
    import c07_coq
    fpd, dpd = c07_coq.DEFAULTS
    cases = [(None, [10000000.0, 10000002.0, 10000004.0], "T8", 1, 1), (7, [10000000.0, 10000002.0, 10000004.0], "T8", 1, 1),
             (8, [10000000.0, 10000002.0, 10000004.0], "T8", 1, 1), (1, [1.04e9, 1.05e9], "E12", 2, 1), (3, [1000.0, 1001.0], "U8", 2, 2)]
    for _ in range(10 if ctx.tier == "quick" else 80):
        fp = rng.choice([None, 1, 2, 3, 5, 6, 7, 9, 12])
        efp = fpd if fp is None else fp
        k = rng.randint(max(3, efp), 12)
        step = rng.randint(1, 4) * 10.0 ** max(0, k - efp - rng.randint(0, 2))
        base = rng.randint(1, 9) * 10.0 ** k
        grid = [base + i * step for i in range(rng.randint(2, 4))]
        t = rng.choice(L.TYPES)
        mr, mc = (1, 1) if t != "E12" else (2, 1)
        cases.append((fp, grid, t, mr, mc))
        cases.append((17, grid, t, mr, mc))                      # control
    lines = []
    info = []
    for k, (fp, grid, t, mr, mc) in enumerate(cases):
        cal = gen_cal(rng, "g%d" % k, t, (mr, mc), F=len(grid), ideal=True)
        cal["fvec"] = list(grid)
        cal["props"] = "absent"
        src = os.path.join(d, "col%d.vnacal" % k)
        out = os.path.join(d, "col%d_out.vnacal" % k)
        text = L.write_vnacal([cal], None, style="hex")
        with open(src, "w") as f:
            f.write(text)
        sl = ["load 0 %s" % src] + (["setfp 0 %d" % fp] if fp is not None else []) + ["save 0 %s" % out, "load 1 %s" % out, "dump 1", "free 0", "free 1", "leak"]
        lines += ["case %d" % k] + sl
        efp = fpd if fp is None else fp
        texts = [L.fmt_f(x, efp) for x in grid]
        back = [L.parse_real(x) for x in texts]
        collide = any(b <= a for a, b in zip(back, back[1:]))
        info.append((fp, efp, grid, t, mr, mc, sl, text, texts, collide))
    res = L.run_script(ctx, exe, "\n".join(lines) + "\n", len(cases))
    ncoll = nknown = 0
    for k, (fp, efp, grid, t, mr, mc, sl, text, texts, collide) in enumerate(info):
        cr = res.get(k)
        rep = {"type": t, "rows": mr, "columns": mc, "fprecision": efp, "frequencies": grid, "frequency_texts": texts, "script": sl,
               "files": {"col%d.vnacal" % k: text}, "seed": ctx.seed}
        if cr is None:
            continue
        if cr.crash:
            sig = dict(cr.crash[2])
            ctx.violation(sig, "C07 frequency grids: crash %s in %s (fprecision %d, f = %r)" % (sig.get("error"), sig.get("function"), efp, grid), dict(rep, stderr=cr.crash[1][-2000:]))
            continue
        ls = cr.lines
        i = 0
        while i < len(ls) and not ls[i].startswith("save"):
            i += 1
        saved = i < len(ls) and ls[i].startswith("save rc=0")
        reloaded = saved and i + 1 < len(ls) and ls[i + 1].startswith("load ok")
        if collide:
            ncoll += 1
            if saved and not reloaded:
                nknown += 1
                if nknown <= 2:
                    ctx.violation({"kind": "roundtrip", "class": "consecutive calibration frequencies format identically at fprecision"},
                                  "vnacal_save (rc 0) at fprecision %d writes f = %r as %r; vnacal_load refuses the saved file: %s"
                                  % (efp, grid, texts, ls[i + 1] if i + 1 < len(ls) else "?"), rep)
            ctx.count(("fgrid-collision", efp, len(grid), t))
            continue
        if not saved or not reloaded:
            ctx.violation({"kind": "roundtrip", "class": "collision-free frequency grid does not round-trip"},
                          "fprecision %d, f = %r (texts %r, strictly ascending): %s" % (efp, grid, texts, ls[i:i + 2]), rep)
            continue
        try:
            st, _ = L.parse_dump(ls, i + 2)
            got = st["slots"][0]["fvec"]
        except (ValueError, IndexError, AssertionError, TypeError):
            got = None
        want = [L.parse_real(x) for x in texts]
        if got is None or len(got) != len(want) or any(not L.same_bits(a, b) for a, b in zip(got, want)):
            ctx.violation({"kind": "roundtrip", "class": "frequency vector after reload"},
                          "fprecision %d: frequencies %r after the reload, the texts %r read as %r" % (efp, got, texts, want), rep)
        else:
            ctx.count(("fgrid-ok", efp, len(grid), t))
            ctx.traces_validated += 1
    ctx.extra["frequency_grids"] = {"cases": len(info), "colliding": ncoll, "saved_but_unloadable (DJ91)": nknown}


def signed_parts(ctx, exe, ytree, d):
    """Finding DJ92: numbers whose two parts must not be combined by arithmetic.  A T8 1x1 file written by hand with
    the error terms (-0, 1.5), (2, +inf), (-0, -0), (-inf, 0) and z0 = (-0, 0), every accepted spelling of
    parse_complex ("a bj", "bj", "a + j", "a - j", "-j"): vnacal_load must deliver exactly these bit patterns
    (signbit of zeros, infinities; the real part must not become NaN), and a save at VNACAL_MAX_PRECISION + reload
    must reproduce them (the property: bit-exact at VNACAL_MAX_PRECISION)."""
    inf = float("inf")
    want = [complex(-0.0, 1.5), complex(2.0, inf), complex(-0.0, -0.0), complex(-inf, 0.0)]
    texts = ["-0x0p+0 +0x1.8p+0j", "+0x1p+1 +infj", "-0x0p+0 -0x0p+0j", "-inf +0x0p+0j"]
    head = "#VNACal 1.0\n%YAML 1.1\n---\ncalibrations:\n- name: s\n  type: T8\n  rows: 1\n  columns: 1\n  frequencies: 1\n"
    docs = [("two-part spelling", head + "  z0: -0x0p+0 +0x0p+0j\n  data:\n  - f: 1e9\n    ts: [%s]\n    ti: [%s]\n    tx: [%s]\n    tm: [%s]\n" % tuple(texts),
             complex(-0.0, 0.0), want),
            ("one-part spellings", head + "  z0: -0.0\n  data:\n  - f: 1e9\n    ts: [infj]\n    ti: [-0.0 + j]\n    tx: [-0.0 - j]\n    tm: [-j]\n",
             complex(-0.0, 0.0), [complex(0.0, inf), complex(-0.0, 1.0), complex(-0.0, -1.0), complex(0.0, -1.0)])]
    lines = []
    for k, (lab, text, z0, terms) in enumerate(docs):
        src = os.path.join(d, "sgn%d.vnacal" % k)
        out = os.path.join(d, "sgn%d_out.vnacal" % k)
        with open(src, "w") as f:
            f.write(text)
        lines += ["case %d" % k, "load 0 %s" % src, "dump 0", "setfp 0 %d" % L.MAXP, "setdp 0 %d" % L.MAXP, "save 0 %s" % out, "load 1 %s" % out,
                  "dump 1", "free 0", "free 1", "leak"]
    res = L.run_script(ctx, exe, "\n".join(lines) + "\n", len(docs))
    nbad = 0

    def bits(z):
        return "(%s, %s)" % (float.hex(z.real), float.hex(z.imag))
    for k, (lab, text, z0, terms) in enumerate(docs):
        cr = res.get(k)
        rep = {"document": lab, "file": text, "script": ["load 0 <file>", "dump 0", "setfp 0 1000", "setdp 0 1000", "save 0 <out>", "load 1 <out>", "dump 1"],
               "fix": "fixes/DJ92_parse_complex_cmplx.diff"}
        if cr is None:
            continue
        if cr.crash:
            sig = dict(cr.crash[2])
            ctx.violation(sig, "C07 signed zeros / infinities (%s): crash %s in %s" % (lab, sig.get("error"), sig.get("function")), dict(rep, stderr=cr.crash[1][-2000:]))
            continue
        ls = cr.lines
        diffs = []
        try:
            if not ls[0].startswith("load ok"):
                raise ValueError("the document does not load: %s" % ls[0])
            st0, i = L.parse_dump(ls, 1)
            j = i
            while not ls[j].startswith("save"):
                j += 1
            for where, st in (("vnacal_load", st0),) + ((("save at VNACAL_MAX_PRECISION + vnacal_load", L.parse_dump(ls, j + 2)[0]),)
                                                         if ls[j].startswith("save rc=0") and ls[j + 1].startswith("load ok") else ()):
                c = st["slots"][0]
                got = [c["z0"]] + [c["terms"][t][0] for t in range(4)]
                for nm, g, w in zip(["z0", "ts[0]", "ti[0]", "tx[0]", "tm[0]"], got, [z0] + terms):
                    if not (L.same_bits(g.real, w.real) and L.same_bits(g.imag, w.imag)):
                        diffs.append("%s: %s is %s, the text denotes %s" % (where, nm, bits(g), bits(w)))
            if not (ls[j].startswith("save rc=0") and ls[j + 1].startswith("load ok")):
                diffs.append("save / reload at VNACAL_MAX_PRECISION failed: %s / %s" % (ls[j], ls[j + 1]))
        except (ValueError, IndexError, AssertionError, TypeError) as e:
            diffs.append("transcript: %r" % (e,))
        if diffs:
            nbad += 1
            ctx.violation({"kind": "roundtrip", "class": "parse_complex combines the parts by arithmetic"},
                          "C07 signed zeros / infinities (%s): %s" % (lab, diffs[0][:300]), dict(rep, differences=diffs[:10]))
        else:
            ctx.count(("signed-parts", lab))
            ctx.traces_validated += 1
    ctx.extra["signed_parts_documents_failing"] = nbad


def solve_path(ctx, exe, ytree, d):
    """A few calibrations made by the real solver, saved at several precisions."""
    combos = [("E12", 2, 2), ("T8", 2, 2), ("U8", 2, 2), ("TE10", 2, 2), ("UE10", 2, 2), ("UE14", 2, 2),
              ("E12", 2, 1), ("UE14", 2, 1), ("U8", 2, 1), ("T8", 1, 2), ("TE10", 1, 2), ("E12", 1, 1), ("T8", 1, 1), ("U8", 1, 1)]
    precs = [(None, None), (L.MAXP, L.MAXP), (17, 17), (3, 9)] if ctx.tier == "quick" else \
            [(None, None), (L.MAXP, L.MAXP), (17, 17), (3, 9), (1, 1), (40, 40), (25, 26), (L.MAXP, 6)]
    lines = []
    idx = []
    k = 0
    for pi, (fp, dp) in enumerate(precs):
        out = os.path.join(d, "solve%d.vnacal" % pi)
        lines += ["case %d" % k, "create 0"]
        for j, (t, r, c) in enumerate(combos):
            lines.append("solve 0 %s %s %d %d %d %d" % (hx("s%d" % j), t, r, c, 1 + (j + pi) % 3, j % 2))
        lines += ["pset 0 -1 %s" % hx("made_by=solve path"), "pset 0 0 %s" % hx("note=first")]
        if fp is not None:
            lines += ["setfp 0 %d" % fp, "setdp 0 %d" % dp]
        lines += ["dump 0", "save 0 %s" % out, "load 1 %s" % out, "dump 1", "free 0", "free 1", "leak"]
        idx.append((fp, dp, out))
        k += 1
    res = L.run_script(ctx, exe, "\n".join(lines) + "\n", k)
    rc, tout, terr = vplib.sh([ytree, "cal"] + [o for _, _, o in idx if os.path.exists(o)], timeout=120, env=ctx.run_env())
    trees = L.parse_tree_dump(tout)
    import c07_coq
    fpd, dpd = c07_coq.DEFAULTS
    solved = 0
    for j, (fp, dp, out) in enumerate(idx):
        cr = res.get(j)
        if cr is None or cr.crash:
            sig = dict(cr.crash[2]) if cr else {"kind": "harness"}
            ctx.violation(sig, "C07 solve path (precisions %s/%s): crash %s in %s" % (fp, dp, sig.get("error"), sig.get("function")),
                          {"script": lines, "stderr": cr.crash[1][-2500:] if cr else ""})
            continue
        ls = cr.lines
        nsolved = len([x for x in ls if x.startswith("solve rc=0")])
        solved += nsolved
        i = 0
        while not ls[i].startswith("NCAL"):
            i += 1
        st0, i = L.parse_dump(ls, i)
        diffs = []
        if not ls[i].startswith("save rc=0"):
            diffs.append("save failed: %s" % ls[i])
        elif not ls[i + 1].startswith("load ok"):
            diffs.append("reload failed: %s" % ls[i + 1])
        else:
            st1, _ = L.parse_dump(ls, i + 2)
            slots = st0["slots"]
            g, lc = check_saved(ctx, slots, st0["gprops"], fpd if fp is None else fp, dpd if dp is None else dp, trees.get(out), diffs)
            if lc is not None:
                cmp_state(lc, st0["gprops"], st1, "reload of the solved calibrations", diffs)
        if ls[-1] != "leak 0":
            ctx.violation(L.leak_sig(cr.leak_err), "C07 solve path (precisions %s/%s): leak after everything was freed" % (fp, dp),
                          {"script": lines, "stderr": (cr.leak_err or "")[:3000]})
        if diffs:
            sig = {"kind": "roundtrip", "class": "solve path"}
            ctx.violation(sig, "C07 solve path (precisions %s/%s): %s" % (fp, dp, diffs[0][:300]), {"script": lines, "differences": diffs[:10]})
        else:
            for s in st0["slots"]:
                if s is not None:
                    ctx.count(("solve", s["type"], s["rows"], s["cols"], s["F"], fp, dp))
            ctx.traces_validated += 1
    ctx.extra["solve_path_calibrations"] = solved
    if solved == 0:
        ctx.notes.append("solve path: no calibration could be solved (covered by C01), only written-file calibrations were exercised")
