"""C01 - calibrate-then-apply recovers the true S-parameters of any device.

1. T5 (translate/layout.py) regenerates coq/Gen/LayoutGen.v from vnacal_layout.c / vnacal_layout.h and
   is validated exhaustively against the compiled _vnacal_layout for dims 1..6.
2. Coq: layout_partition, terms_model_eq_spec (bounded, vm_compute), the matrix-algebra theorems
   (true_terms_solve, apply_recovers, ...) -- every theorem is one obligation.
3. Structural tie: the executable models Cal/AddModel.v + Cal/TermsModel.v (extracted to OCaml) and
   the library (white-box walk of the equation lists) must print identical integer dumps for
   random add-calls (all entry points, port maps, abbreviated matrices, rejected calls).
4. End to end (support; the search engine for failing inputs): an independent E-term physical
   network produces the measurements of random standards; public API calibrate + apply must
   return the DUT's S; saved error terms must satisfy the documented equations; ASan/UBSan/LSan.
5. Numeric ties (lib/calcore_num.py): the executable models Cal/ApplyModel.v (fill_* as coded) and
   Cal/SolveSimple.v (leakage means, assembly of a_matrix / b_vector, unity term, convert_ue14_to_e12),
   extracted at the Gaussian rationals (ocaml/drv_calcore2), against the static fill_* functions /
   vnacal_apply_m (harness/calcore_apply.c) and the systems handed to _vnacommon_mldivide /
   _vnacommon_qrsolve by _vnacal_new_solve_simple plus the saved terms (harness/calcore_solve.c), on
   dyadic inputs for which binary64 is exact: A, B and the coefficient matrices are compared as exact
   rationals.  The theorems of Properties_C01.v part 1b are about these two models.
"""
import os
import re
import concurrent.futures

import vplib
import calcore
import calcore_num
from calcore import TYPES, dims_allowed

GEN = os.path.join(vplib.COQDIR, "Gen")


# =============================================================================== end to end
SCALE_PROB = 0.4


def scenario_list(ctx):
    """(type, rows, cols, F, form, forced scale mode or None).  Magnitude scaling (calcore.draw_scale): in the
    first pass over the grid the dims of every type cycle through the scale modes (4 of the 10 shapes of a type,
    one per mode: every type x every mode in every tier); every other scenario is scaled with probability
    SCALE_PROB, mode drawn by the scenario's own rng."""
    rng = ctx.rng
    reps = 2 if ctx.tier == "quick" else 10
    extra = 100 if ctx.tier == "quick" else 600
    out = []
    for rep in range(reps):
        for ti, typ in enumerate(TYPES):
            k = 0
            for r in range(1, 5):
                for c in range(1, 5):
                    if dims_allowed(typ, r, c):
                        forced = None
                        # shapes 1, 4, 6, 8 of the type (offset by the type so that the modes meet different shapes)
                        if rep == 0 and (k + ti) % 10 in (1, 4, 6, 8):
                            forced = calcore.SCALE_MODES[({1: 0, 4: 1, 6: 2, 8: 3}[(k + ti) % 10] + ti) % 4]
                        # the a/b mode needs standards given in a/b form
                        out.append((typ, r, c, rng.randint(1, 3), "ab" if forced == "ab" else None, forced))
                        k += 1
    for _ in range(extra):
        typ = rng.choice(TYPES)
        while True:
            r, c = rng.randint(1, 4), rng.randint(1, 4)
            if dims_allowed(typ, r, c):
                break
        out.append((typ, r, c, rng.randint(1, 4), rng.choice(["m", "ab", "mixed"]), None))
    return out


def make_scenario(seed, typ, r, c, F, form, forced, scaled=True, grid=None):
    """the scenario of one 64-bit seed; scaled=False gives its unscaled twin (same network, standards, DUT, history
    variations: the scale is drawn last)"""
    import random
    rng = random.Random(seed)
    sc = calcore.gen_scenario(rng, typ, r, c, F, form=form)
    sc.hist_seed = rng.getrandbits(32)
    sc.scale = None
    sc.apply_both = True          # the device through vnacal_apply_m AND vnacal_apply (a/b)
    # frequency grid of any density (ordinary, wide, dense: 1 Hz steps at GHz, neighbours a few ulps apart); the error
    # boxes differ per frequency, except in one scenario out of five where they are constant and the device is also
    # measured BETWEEN the calibration points
    grng = random.Random(rng.getrandbits(32))
    calcore.draw_grid(grng, sc, kind=grid)
    if sc.F >= 2 and grng.random() < 0.2 and sc.grid["kind"] != "ulp":
        calcore.constant_network(grng, sc)
    want = rng.random() < SCALE_PROB or forced is not None
    if want and scaled:
        calcore.draw_scale(rng, sc, mode=forced)
    return sc


def run_one(ctx, exe, sc, noise=None, dump=False):
    import random
    hist = random.Random(sc.hist_seed)
    # history variations that must not matter: parameters created up front in shuffled order among
    # unused ones (scattered indices, hash resizes), vector standards with extra knots above the band
    # that are evaluated there before the solve
    pool = random.Random(hist.getrandbits(32)) if hist.random() < 0.7 else None
    extend = random.Random(hist.getrandbits(32)) if hist.random() < 0.6 else None
    text = calcore.scenario_script(sc, script=calcore.Script(noise, pool=pool, extend=extend), dump=dump).text()
    rc, out, err = calcore.run_script(ctx, exe, "live\n" + text + "free 0\nlive\n")
    return text, rc, out, err


def e2e(ctx, exe):
    import random
    specs = scenario_list(ctx)
    seeds = []
    scen = []
    for i, spec in enumerate(specs):
        seeds.append(ctx.rng.getrandbits(64))
        scen.append(make_scenario(seeds[-1], *spec))
    results = [None] * len(scen)
    with concurrent.futures.ThreadPoolExecutor(max_workers=min(8, vplib.NPROC)) as ex:
        futs = {ex.submit(run_one, ctx, exe, sc): i for i, sc in enumerate(scen)}
        for fu in concurrent.futures.as_completed(futs):
            results[futs[fu]] = fu.result()
    used = skipped = 0
    worst_apply = {}
    worst_terms = {}
    # magnitude-scaled scenarios (calcore.draw_scale): counts and worst errors per mode
    sc_n, sc_used, sc_skipped, sc_terms, sc_apply = {}, {}, {}, {}, {}
    sc_types = {}
    sc_kmin, sc_kmax = 0.0, 0.0
    for sc in scen:
        if sc.scale is not None:
            md = sc.scale["mode"]
            sc_n[md] = sc_n.get(md, 0) + 1
            sc_types.setdefault(sc.typ, set()).add(md)
            ex = sc.scale["exponents"]
            ks = ex if isinstance(ex, list) else ([x for x in ex["standards"] + [ex["apply"]] if x is not None]
                                                  if isinstance(ex, dict) else [ex])
            sc_kmin, sc_kmax = min([sc_kmin] + ks), max([sc_kmax] + ks)
    covered = set()
    failures = []
    for i, sc in enumerate(scen):
        text, rc, out, err = results[i]
        ctx.count()
        key = (sc.typ, sc.r, sc.c)
        if rc != 0:
            sig = vplib.asan_signature(err) or {"kind": "fault", "error": "exit %d" % rc, "function": None}
            failures.append((sig, "calibration harness stopped on %s %dx%d: %s" % (
                sc.typ, sc.r, sc.c, (err.strip().split("\n") or [""])[0][:200]), sc, text, err))
            continue
        recs = calcore.parse_output(out)
        lives = [x for k, x in recs if k == "live"]
        problems, stats = calcore.judge(sc, recs)
        if not problems and len(lives) == 2:
            a, b = int(lives[0]["line"].split()[1]), int(lives[1]["line"].split()[1])
            # the calibration added to the vnacal_t (and its name) legitimately stay allocated
            ctx.extra.setdefault("live_growth_max", 0)
            ctx.extra["live_growth_max"] = max(ctx.extra["live_growth_max"], b - a)
        if problems:
            # ill-conditioned draw?  repeat with a 1e-12 relative perturbation of every measured value
            nrng = random.Random(12345 + i)
            t2, rc2, out2, err2 = run_one(ctx, exe, sc, noise=nrng)
            sens = calcore.outputs_differ(recs, calcore.parse_output(out2)) if rc2 == 0 else 0.0
            numeric = all(p[0] in ("terms-residual", "apply-mismatch") for p in problems)
            if numeric and sens > 1e-9:
                skipped += 1
                if sc.scale is not None:
                    sc_skipped[sc.scale["mode"]] = sc_skipped.get(sc.scale["mode"], 0) + 1
                continue
            cls, detail = problems[0]
            sig = {"kind": "e2e", "class": cls, "type": sc.typ, "rows": sc.r, "cols": sc.c}
            if sc.scale is not None:
                # the same scenario without the scaling: if it passes, the level of the raw measurements is
                # what the library does not absorb (an absolute threshold, or a loss of accuracy that depends on level)
                tw = make_scenario(seeds[i], *specs[i], scaled=False)
                t3, rc3, out3, err3 = run_one(ctx, exe, tw)
                pr3 = calcore.judge(tw, calcore.parse_output(out3))[0] if rc3 == 0 else [("harness", "exit %d" % rc3)]
                sc.twin = "passes" if not pr3 else "fails too: %s" % (pr3[0],)
                if not pr3:
                    sig["scale"] = sc.scale["mode"]
                detail += " [raw measurements scaled: mode %s, decimal exponents %s; sensitivity to a 1e-12 perturbation %.3g; " \
                          "the unscaled twin of the scenario %s]" % (sc.scale["mode"], sc.scale["exponents"], sens, sc.twin)
            failures.append((sig, "%s %dx%d: %s" % (sc.typ, sc.r, sc.c, detail), sc, text, ""))
            continue
        used += 1
        covered.add(key)
        ctx.nontrivial.add(("e2e", i))
        worst_terms[sc.typ] = max(worst_terms.get(sc.typ, 0.0), stats["terms"])
        if stats["apply"] is not None:
            worst_apply[sc.typ] = max(worst_apply.get(sc.typ, 0.0), stats["apply"])
        if sc.scale is not None:
            md = sc.scale["mode"]
            sc_used[md] = sc_used.get(md, 0) + 1
            sc_terms[md] = max(sc_terms.get(md, 0.0), stats["terms"])
            if stats["apply"] is not None:
                sc_apply[md] = max(sc_apply.get(md, 0.0), stats["apply"])
        if i % 17 == 0 or (sc.scale is not None and sc_used[sc.scale["mode"]] == 1 and sc.scale["mode"] in ("rows", "ab")):
            d = calcore.describe(sc)
            d["terms_residual"] = stats["terms"]
            d["apply_error"] = stats["apply"]
            ctx.sample(d)
    ctx.traces_validated += used
    ctx.extra["e2e_scenarios"] = len(scen)
    ctx.extra["e2e_used"] = used
    ctx.extra["e2e_skipped_ill_conditioned"] = skipped
    ctx.extra["e2e_worst_apply_rel_error"] = worst_apply
    ctx.extra["e2e_worst_terms_residual"] = worst_terms
    grids = {}
    for sc in scen:
        if sc.F >= 2:
            k = sc.grid["kind"]
            grids[k] = grids.get(k, 0) + 1
    ctx.extra["e2e_grids_by_kind_F_ge_2"] = grids
    dense = [sc.grid["relative_spacing"] for sc in scen if sc.F >= 2 and sc.grid["kind"] == "dense"]
    ctx.extra["e2e_dense_min_relative_spacing"] = min(dense) if dense else None
    ctx.extra["e2e_constant_network_applied_between_points"] = len([sc for sc in scen if getattr(sc, "between", None)])
    ctx.extra["e2e_applies_per_scenario"] = "vnacal_apply_m and vnacal_apply (a/b), both, at the calibration frequencies"
    # every density must have been exercised with at least two frequencies
    grid_ok = all(grids.get(k, 0) > 0 for k in calcore.GRID_KINDS)
    ctx.extra["e2e_scaled_scenarios"] = sum(sc_n.values())
    ctx.extra["e2e_scaled_by_mode"] = sc_n
    ctx.extra["e2e_scaled_used_by_mode"] = sc_used
    ctx.extra["e2e_scaled_skipped_ill_conditioned_by_mode"] = sc_skipped
    ctx.extra["e2e_scaled_exponent_range"] = [sc_kmin, sc_kmax]
    ctx.extra["e2e_scaled_worst_terms_residual_by_mode"] = sc_terms
    ctx.extra["e2e_scaled_worst_apply_rel_error_by_mode"] = sc_apply
    unscaled_types = [t_ for t_ in TYPES if not sc_types.get(t_)]
    allkeys = set((t, r, c) for t in TYPES for r in range(1, 5) for c in range(1, 5) if dims_allowed(t, r, c))
    missing = sorted(allkeys - covered)
    ok = not failures and skipped <= len(scen) // 5 and not missing and not unscaled_types and grid_ok
    detail = ""
    if failures:
        detail = failures[0][1]
    elif missing:
        detail = "no well-conditioned passing scenario for %s" % (missing[:5],)
    elif unscaled_types:
        detail = "no magnitude-scaled scenario for %s" % (unscaled_types,)
    elif not grid_ok:
        detail = "a frequency-grid density was not exercised with F >= 2: %s" % (grids,)
    elif not ok:
        detail = "%d of %d draws ill-conditioned" % (skipped, len(scen))
    ctx.obligation("tie:e2e calibrate+apply vs E-term oracle (8 types x dims 1..4, all entry points)", ok, detail)
    seen = set()
    for sig, what, sc, text, err in failures:
        k = tuple(sorted((a, str(b)) for a, b in sig.items()))
        if k in seen:
            continue
        seen.add(k)
        ctx.violation(sig, what, {"scenario": calcore.describe(sc), "script": text[:200000],
                                  "unscaled_twin": getattr(sc, "twin", None),
                                  "how": "harness/calcore_e2e.c < script (ASan/UBSan build)", "stderr": err[-3000:]})
    if missing and not failures:
        ctx.unproved("tie:e2e coverage", detail, "all type x dims scenarios")
    return failures


# =============================================================================== calibration-table histories
def histories(ctx, exe):
    """End to end over histories of the calibration table (calcore.gen_history): several calibrations stored under
    names, some deleted, setups calibrated again with another error network and stored under the same (or an absent)
    name; every live calibration is then applied through every index the application holds for it."""
    import random
    n = 24 if ctx.tier == "quick" else 240
    hs = [calcore.gen_history(random.Random(ctx.rng.getrandbits(64))) for _ in range(n)]

    def run(h, noise=None):
        text = calcore.history_script(h, noise).text()
        return (text,) + calcore.run_script(ctx, exe, text)
    with concurrent.futures.ThreadPoolExecutor(max_workers=min(8, vplib.NPROC)) as ex:
        results = list(ex.map(run, hs))
    failures = []
    used = skipped = 0
    worst = 0.0
    nold = nholes = 0
    for i, (h, (text, rc, out, err)) in enumerate(zip(hs, results)):
        ctx.count()
        if rc != 0:
            sig = vplib.asan_signature(err) or {"kind": "fault", "error": "exit %d" % rc, "function": None}
            failures.append((sig, "calibration harness stopped on a calibration-table history: %s" % (
                (err.strip().split("\n") or [""])[0][:200]), h, text, err))
            continue
        recs = calcore.parse_output(out)
        problems, w = calcore.judge_history(h, recs)
        if problems:
            numeric = all(p[0] == "apply-mismatch" for p in problems)
            if numeric:
                # ill-conditioned draw?  1e-12 relative perturbation of every measured value
                t2, rc2, out2, err2 = run(h, random.Random(4321 + i))
                sens = calcore.outputs_differ(recs, calcore.parse_output(out2)) if rc2 == 0 else 0.0
                if sens > 1e-9:
                    skipped += 1
                    continue
            cls, detail = problems[0]
            failures.append(({"kind": "e2e-history", "class": cls}, "calibration-table history [%s]: %s" % (
                "; ".join(calcore.describe_history(h)[:-len(h.final) or None]), detail), h, text, ""))
            continue
        used += 1
        worst = max(worst, w)
        ctx.nontrivial.add(("history", i))
        names = [op[1] for op in h.ops if op[0] == "add"]
        nold += len([1 for nm, sc, ref in h.final if ref != "r%d" % max(op[3] for op in h.ops if op[0] == "add" and op[1] == nm)])
        seen_del = False
        for op in h.ops:
            if op[0] == "del":
                seen_del = True
            elif seen_del and names.count(op[1]) > 1:
                nholes += 1
                break
    ctx.traces_validated += used
    ctx.extra["history_scenarios"] = n
    ctx.extra["history_used"] = used
    ctx.extra["history_skipped_ill_conditioned"] = skipped
    ctx.extra["history_applies_through_an_earlier_index"] = nold
    ctx.extra["history_re-adds_after_a_delete"] = nholes
    ctx.extra["history_worst_apply_rel_error"] = worst
    ok = not failures and skipped <= n // 5 and used > 0
    ctx.obligation("tie:e2e calibration-table histories (add, delete, re-add under the same name, apply through old and new index)",
                   ok, failures[0][1][:400] if failures else ("" if ok else "%d of %d draws ill-conditioned" % (skipped, n)))
    seen = set()
    for sig, what, h, text, err in failures:
        k = tuple(sorted((a, str(b)) for a, b in sig.items()))
        if k in seen:
            continue
        seen.add(k)
        ctx.violation(sig, what, {"history": calcore.describe_history(h), "script": text[:200000],
                                  "how": "harness/calcore_e2e.c < script (ASan/UBSan build)", "stderr": err[-3000:]})


# =============================================================================== directed cases
def directed(ctx, exe):
    """D14 / D15 regressions and a memory ledger: alloc .. add .. free returns every block."""
    import random
    rng = random.Random(ctx.seed)
    bad = []
    for typ, r, c in (("U8", 2, 1), ("UE10", 3, 1), ("U16", 3, 2), ("UE14", 4, 2), ("E12", 2, 1), ("T8", 1, 2)):
        sc = calcore.gen_scenario(rng, typ, r, c, 2, form="m", extras=False)
        p = sc.p
        # full NULL-map mapped matrix on a rectangular calibration (D14)
        st = calcore.Std("mm", list(range(1, p + 1)), [calcore.rand_full_s(rng, p) for _ in range(2)], mapflag=0)
        st.brows, st.bcols, st.form = r, c, "m"
        calcore.finish_std(rng, sc, st, sc.fill)
        sc.stds.insert(0, st)
        s = calcore.Script()
        s.lines.append("live")
        s.new(0, sc)
        for x in sc.stds:
            s.add(0, sc, x)
        s.lines.append("solve 0")
        s.lines.append("free 0")
        s.lines.append("live")
        rc, out, err = calcore.run_script(ctx, exe, s.text())
        ctx.count(("directed", typ, r, c))
        if rc != 0:
            sig = vplib.asan_signature(err) or {"kind": "fault", "error": "exit %d" % rc, "function": None}
            bad.append((sig, "%s %dx%d with a NULL port map: %s" % (typ, r, c, err.strip().split("\n")[0][:200]), s.text(), err))
            continue
        recs = calcore.parse_output(out)
        lives = [int(x["line"].split()[1]) for k, x in recs if k == "live"]
        adds = [x for k, x in recs if k == "add"]
        if any(a.get("rc") != "0" for a in adds):
            bad.append(({"kind": "e2e", "class": "add-rejected", "type": typ, "rows": r, "cols": c},
                        "%s %dx%d: valid standard refused: %s" % (typ, r, c, [a["line"] for a in adds if a.get("rc") != "0"][0]),
                        s.text(), ""))
        elif len(lives) == 2 and lives[1] - lives[0] > len(set(calcore.Script().cache)) + s.npar:
            # parameters made by the script stay allocated in the vnacal_t (s.npar blocks at most 3 each)
            if lives[1] - lives[0] > 3 * s.npar:
                bad.append(({"kind": "ledger", "class": "leak-after-new-free", "type": typ},
                            "%s %dx%d: %d blocks still allocated after vnacal_new_free (parameters made: %d)"
                            % (typ, r, c, lives[1] - lives[0], s.npar), s.text(), ""))
    # rectangular S on a diagonal type (D63, repaired): must be refused with EINVAL, as the model says
    # (Properties_C01.rectangular_s_refused); before the repair build_terms_t8 aborted on an assert
    text = ("new 0 0 2 2 1 %s\nscalar 0 0x1.3333333333333p-2 0x0p+0\nscalar 1 0x1.999999999999ap-3 0x0p+0\n"
            "add 0 mm m 0 0 2 2 0x1p-1 0x0p+0 0x1p-3 0x0p+0 0x1p-3 0x0p+0 0x1p-2 0x0p+0 2 1 p0 p1 1 1 2\nhash 0\n"
            % calcore.hx(1e9))
    rc, out, err = calcore.run_script(ctx, exe, text)
    ctx.count(("directed", "rectangular-S"))
    if rc != 0:
        sig = vplib.asan_signature(err) or {"kind": "abort", "function": "build_terms_t8" if "build_terms_t8" in err else None,
                                            "error": "exit %d" % rc}
        bad.append((sig, "T8 2x2 with a 2x1 S matrix and port map {1,2}: " + (err.strip().split("\n") or [""])[0][:200], text, err))
    else:
        a_ = [x for k, x in calcore.parse_output(out) if k == "add"]
        h_ = [x for k, x in calcore.parse_output(out) if k == "hash"]
        if not a_ or a_[0].get("rc") != "-1" or a_[0].get("errno") != "EINVAL":
            bad.append(({"kind": "e2e", "class": "rectangular-S-not-refused", "type": "T8"},
                        "T8 2x2 with a 2x1 S matrix is not refused with EINVAL: %s" % (a_[0]["line"] if a_ else out[:100]), text, ""))
        elif h_ and h_[0].get("count") != "1":
            bad.append(({"kind": "e2e", "class": "refused-add-registers-parameters", "type": "T8"},
                        "a refused add left parameters in the vnacal_new_t: " + h_[0]["line"], text, ""))
    ctx.obligation("tie:directed NULL-port-map / ledger cases", not bad, bad[0][1] if bad else "")
    for sig, what, text, err in bad:
        ctx.violation(sig, what, {"script": text[:100000], "stderr": err[-3000:]})


# =============================================================================== T5: layout
def documented_layout(tname, r, c):
    """(ti, tx, tm, t_terms, el_offset, el_terms, error_terms) from the table of vnacal_new(3) /
    the comments of vnacal_layout.h, written independently of the C function"""
    if tname == "E12":
        return (r, 2 * r, 2 * r, 3 * r, 0, r, 3 * r * c)
    offs, sizes, nt, nel = calcore.layout("UE14" if tname == "E12_UE14" else tname, r, c)
    if tname in ("UE14", "E12_UE14"):
        return (offs[1], offs[2], offs[3], nt, c * nt, nel, c * nt + nel)
    return (offs[1], offs[2], offs[3], nt, nt, nel, nt + nel)


def layout_part(ctx):
    import layout as T5
    src = os.path.join(ctx.repo, "src")
    info = None
    try:
        text, info = T5.generate(src)
        ctx.obligation("T5:translate", True)
        ctx.write_if_changed(os.path.join(GEN, "LayoutGen.v"), text)
        ctx.coq_make(["Gen/LayoutGen.vo"])          # the validation below evaluates the regenerated file
    except T5.TranslateError as e:
        ctx.obligation("T5:translate", False, str(e))
        ctx.log("T5: source no longer matches the accepted idiom:", e)
    # compiled function, every type code, dims 1..6: compared with the documented table (search engine)
    names = ["T8", "U8", "TE10", "UE10", "T16", "U16", "UE14", "E12_UE14", "E12"]
    fields = ["vl_type", "vl_m_rows", "vl_m_columns", "vl_ti_offset", "vl_tx_offset", "vl_tm_offset",
              "vl_t_terms", "vl_el_offset", "vl_el_terms", "vl_error_terms"]
    rowfn = T5.c_row_function(info) if info else (
        "static void row(const vnacal_layout_t *vlp, vnacal_type_t type)\n{\n" +
        "".join('    printf("%%d ", (int)vlp->%s);\n' % f for f in fields) + '    printf("\\n");\n}\n')
    with open(os.path.join(ctx.tmp, "calcore_layout_row.inc"), "w") as f:
        f.write(rowfn)
    lexe = ctx.build_harness("calcore_layout", san=True, extra=["-I" + ctx.tmp])
    rc, out, err = vplib.sh([lexe, str(len(names))], timeout=120, env=ctx.run_env())
    if rc != 0:
        sig = vplib.asan_signature(err) or {"kind": "fault", "error": "exit %d" % rc, "function": None}
        ctx.violation(sig, "_vnacal_layout harness failed: " + err[-300:], {"stderr": err[-3000:]})
        return
    crow = [[int(x) for x in ln.split()] for ln in out.strip().split("\n")]
    wrong = None
    idx = 0
    for t, tname in enumerate(names):
        for r in range(1, 7):
            for c in range(1, 7):
                row = crow[idx]
                idx += 1
                ctx.count(("layout", tname, r, c))
                tlike = tname in ("T8", "TE10", "T16")
                if (tlike and r > c) or (not tlike and r < c):
                    continue
                exp = (t, r, c) + documented_layout(tname, r, c)
                if tuple(row[:10]) != exp and wrong is None:
                    wrong = (tname, r, c, row[:10], exp)
    ctx.obligation("tie:_vnacal_layout vs documented table (dims 1..6)", wrong is None,
                   "" if wrong is None else "%s %dx%d: %s, documented %s" % wrong)
    if wrong is not None:
        ctx.violation({"kind": "layout", "type": wrong[0], "rows": wrong[1], "cols": wrong[2]},
                      "_vnacal_layout(%s, %d, %d) = %s but the documented layout is %s (fields %s)" % (
                          wrong[0], wrong[1], wrong[2], wrong[3], list(wrong[4]), fields),
                      {"type": wrong[0], "rows": wrong[1], "cols": wrong[2], "c_result": wrong[3],
                       "documented": list(wrong[4]), "fields": fields})
    # translator validation: regenerated Gallina evaluated on the same inputs
    if info is not None:
        rc, cout, cerr = ctx.coq_eval("layout_rows", T5.coq_rows(info), timeout=600)
        ok = False
        detail = ""
        if rc != 0:
            detail = "evaluation of Gen/LayoutGen.v failed: " + cerr[-300:]
        else:
            body = "\n".join(x.split(":")[0] for x in cout.split("=")[1:])
            ints = [int(x) for x in re.findall(r"-?\d+", body.replace("%Z", ""))]
            rows, cur = [], []
            for v in ints:
                if v == -777:
                    rows.append(cur)
                    cur = []
                else:
                    cur.append(v)
            if len(rows) != len(crow):
                detail = "model printed %d rows, C %d" % (len(rows), len(crow))
            else:
                ok = True
                for k, (a, b) in enumerate(zip(rows, crow)):
                    if a != b:
                        ok = False
                        t, rem = divmod(k, 36)
                        detail = "type code %d dims %dx%d: model %s, C %s" % (t, rem // 6 + 1, rem % 6 + 1, a[:12], b[:12])
                        break
                ctx.traces_validated += len(rows)
        ctx.obligation("T5:validation (every member and macro, 9 type codes x dims 1..6 x 1..6)", ok, detail)
        if not ok and wrong is None:
            ctx.unproved("T5:validation", detail, "exhaustive comparison dims 1..6; documented-table comparison passed")


# =============================================================================== structural tie
def structural(ctx, exe):
    """AddModel/TermsModel (extracted) against the library's structures, exact comparison."""
    import random
    drv = calcore.model_driver(ctx)
    ncase = 600 if ctx.tier == "quick" else 6000
    cases = []
    for i in range(ncase):
        rng = random.Random(ctx.rng.getrandbits(64))
        typ = TYPES[i % len(TYPES)] if i < 8 * 20 else rng.choice(TYPES)
        while True:
            r, c = rng.randint(1, 4), rng.randint(1, 4)
            if i % 5 == 2:
                # 4..6 ports: union-find forests with two levels (build_connectivity_matrix) need them
                r, c = rng.randint(1, 6), rng.randint(4, 6)
                if not calcore.is_t(typ):
                    r, c = c, r
            if dims_allowed(typ, r, c):
                break
        merr = 1 if rng.random() < 0.15 else 0
        adds, handle, npar = calcore.gen_struct_case(rng, typ, r, c, rng.randint(1, 12) if max(r, c) <= 4 else rng.randint(1, 6),
                                                     forest_prob=0.6 if max(r, c) >= 4 else 0.3)
        cases.append({"typ": typ, "r": r, "c": c, "merr": merr, "adds": adds, "handle": handle, "npar": npar})
    # model
    lines = []
    for cs in cases:
        code = 7 if cs["typ"] == "E12" else calcore.TYPE_CODE[cs["typ"]]
        lines.append("cfg %d %d %d %d %d" % (code, cs["r"], cs["c"], cs["merr"], 3 + cs["npar"]))
        for a in cs["adds"]:
            lines.append(calcore.struct_model_line(a, cs["handle"]))
        lines.append("dump")
    rc, mout, merr_ = vplib.sh([drv], input="\n".join(lines) + "\n", timeout=900)
    if rc != 0:
        raise vplib.BuildError("model driver drv_calcore failed: " + merr_[-400:])
    mlines = mout.split("\n")
    pos = 0
    for cs in cases:
        outs = []
        for a in cs["adds"]:
            outs.append(mlines[pos])
            pos += 1
        body = []
        while mlines[pos] != "enddump":
            body.append(mlines[pos])
            pos += 1
        pos += 1
        cs["model_out"] = outs
        cs["model_dump"] = body

    def run_c(cs):
        s = ["scalar %d %s %s" % (k, calcore.hx(0.3 + 0.01 * k), calcore.hx(0.125)) for k in range(cs["npar"])]
        s.append("new 0 %d %d %d 1 %s" % (calcore.TYPE_CODE[cs["typ"]], cs["r"], cs["c"], calcore.hx(1e9)))
        if cs["merr"]:
            s.append("merror 0 %s %s" % (calcore.hx(1e-3), calcore.hx(1e-3)))
        for a, mo in zip(cs["adds"], cs["model_out"]):
            if not mo.startswith("add abort"):
                s.append(calcore.struct_c_line(cs["typ"], a))
        s.append("dump 0")
        s.append("free 0")
        text = "\n".join(s) + "\n"
        return (text,) + calcore.run_script(ctx, exe, text)
    results = [None] * len(cases)
    with concurrent.futures.ThreadPoolExecutor(max_workers=min(8, vplib.NPROC)) as ex:
        futs = {ex.submit(run_c, cs): i for i, cs in enumerate(cases)}
        for fu in concurrent.futures.as_completed(futs):
            results[futs[fu]] = fu.result()
    bad = []
    naccept = nreject = nabort = 0
    for i, cs in enumerate(cases):
        text, rc, out, err = results[i]
        ctx.count()
        if rc != 0:
            sig = vplib.asan_signature(err) or {"kind": "fault", "error": "exit %d" % rc, "function": None}
            bad.append((sig, "library stopped on an add sequence (%s %dx%d): %s" % (
                cs["typ"], cs["r"], cs["c"], (err.strip().split("\n") or [""])[0][:200]), cs, text, err))
            continue
        recs = calcore.parse_output(out)
        hs = [x for k, x in recs if k == "scalar"]
        if [int(x["h"]) for x in hs] != [3 + k for k in range(cs["npar"])]:
            bad.append(({"kind": "struct", "class": "handles"}, "unexpected parameter handles %s" % [x["h"] for x in hs], cs, text, ""))
            continue
        cadds = [x for k, x in recs if k == "add"]
        mo = [m for m in cs["model_out"] if not m.startswith("add abort")]
        nabort += len(cs["model_out"]) - len(mo)
        mism = None
        for j, (ca, m) in enumerate(zip(cadds, mo)):
            cacc = ca.get("rc") == "0"
            macc = m == "add rc=0"
            if cacc:
                naccept += 1
            else:
                nreject += 1
            if cacc != macc or (not cacc and ca.get("errno") != "EINVAL"):
                mism = "add #%d: library %s, model %s" % (j, ca["line"], m)
                break
        if mism is None:
            dm = [x for k, x in recs if k == "dump"]
            cbody = ([dm[0]["line"]] + dm[0]["body"]) if dm else []
            if cbody != cs["model_dump"]:
                for a_, b_ in zip(cbody + ["<end>"], cs["model_dump"] + ["<end>"]):
                    if a_ != b_:
                        mism = "structure dumps differ: library %r, model %r" % (a_, b_)
                        break
        if mism is not None:
            bad.append(({"kind": "struct", "class": "disagreement", "type": cs["typ"]},
                        "%s %dx%d: %s" % (cs["typ"], cs["r"], cs["c"], mism), cs, text, ""))
        else:
            ctx.nontrivial.add(("struct", i))
    ctx.traces_validated += len(cases) - len(bad)
    ctx.extra["struct_cases"] = len(cases)
    ctx.extra["struct_cases_with_two_level_forest"] = len([1 for cs in cases if cs["adds"] and cs["adds"][0].get("forest_depth", 0) >= 2])
    ctx.extra["struct_cases_5_6_ports"] = len([1 for cs in cases if max(cs["r"], cs["c"]) >= 5])
    ctx.extra["struct_adds_accepted"] = naccept
    ctx.extra["struct_adds_refused"] = nreject
    ctx.extra["struct_adds_model_abort_not_run"] = nabort
    ctx.obligation("tie:AddModel+TermsModel vs library structures (exact)", not bad, bad[0][1] if bad else "")
    seen = set()
    for sig, what, cs, text, err in bad:
        k = tuple(sorted((a, str(b)) for a, b in sig.items()))
        if k in seen:
            continue
        seen.add(k)
        ctx.violation(sig, what, {"case": {k2: v for k2, v in cs.items() if k2 not in ("model_dump",)},
                                  "script": text[:100000], "model_dump_head": cs.get("model_dump", [])[:40],
                                  "stderr": err[-3000:]})
    return bad


# =============================================================================== Coq obligations
COQ_FILES = ["Gen/LayoutGen.v", "Cal/LayoutProofs.v", "Cal/TermsModel.v", "Cal/AddModel.v", "Cal/TermsSpec.v",
             "Cal/TermsProofs.v", "Cal/ConnProofs.v", "Cal/CalAlgebra.v",
             # the numeric core as coded: models, symbolic layer, lemmas (every Lemma/Example = 1 obligation)
             "Cal/Sym.v", "Cal/ApplyModel.v", "Cal/SolveSimple.v", "Cal/CalQI.v",
             "Cal/ApplyProofs.v", "Cal/SolveProofs.v", "Cal/E12Proofs.v", "Cal/LeakProofs.v", "Cal/SolveUnique.v",
             "Cal/ApplyIdentity.v", "Cal/AssembleIdentity.v", "Cal/LinUnique.v", "Cal/ApplyRecovers.v",
             "Cal/SolveRecovers.v", "Cal/EndToEnd.v", "Cal/AssembleList.v",
             "Cal/LeakPhysical.v", "Cal/LeakPhysicalEx.v", "Cal/FillLoops.v", "Cal/FillLoopsProofs.v",
             "Cal/FillLoopsRecovers.v", "Cal/EndToEndLeak.v", "Cal/EndToEndLeakEx.v",
             "Cal/LeakETerms.v", "Cal/EndToEndAll.v", "Cal/EndToEndDevice.v", "Cal/EndToEndFinal.v",
             "Cal/EndToEndFinalEx.v", "Cal/EndToEndCore.v", "Cal/EndToEndCoreDevice.v", "Cal/EndToEndCoreEx.v",
             "Cal/EndToEndETerms.v", "Cal/EndToEndE12Check.v", "Cal/EndToEndBounds.v",
             "Properties_C01.v", "Properties_C01b.v"]


def coq_part(ctx):
    files = [f for f in COQ_FILES if os.path.exists(os.path.join(vplib.COQDIR, f))]
    ok, res = ctx.coq_obligations(files)
    if not ok:
        # the coq/ tree is shared with concurrently running checks (Makefile regeneration, other
        # builds): a failure must be reproducible to count
        import time
        time.sleep(3)
        n0 = len(ctx.obligations)
        ok2, res2 = ctx.coq_obligations(files)
        if ok2:
            nnew = len(ctx.obligations) - n0
            del ctx.obligations[n0 - nnew:n0]          # drop the records of the failed first attempt
            ok, res = ok2, res2
        else:
            del ctx.obligations[n0:]
    if not ok:
        log = getattr(ctx, "_last_coq_log", "")
        badf = [f for f in files if not res.get(f + "o")]
        # the e2e sweep, the documented-table comparison and the structural tie above are the searches
        # for a concrete failing input; if they reported one, it is the violation.  Otherwise:
        if not ctx.violations:
            m = re.search(r'File "\./([^"]+)", line (\d+)', log)
            ctx.unproved("C01:" + (badf[0] if badf else "coq"),
                         "Coq development no longer builds (%s): %s" % (m.group(0) if m else "?", log[-400:].replace("\n", " ")),
                         "e2e calibrate/apply sweep, saved-terms residuals, documented layout table dims 1..6, structural tie")


# =============================================================================== numeric ties
def numeric(ctx):
    """ApplyModel / SolveSimple (extracted at the Gaussian rationals) against the compiled fill_* functions,
    vnacal_apply_m, and the linear systems / saved terms of _vnacal_new_solve_simple: exact comparison on
    dyadic inputs.  Each tie records its obligation and, when it breaks, a violation whose replay is the
    concrete input line / script on which model and library differ (lib/calcore_num.py)."""
    quick = ctx.tier == "quick"
    calcore_num.apply_tie(ctx, 6 if quick else 60)
    calcore_num.solve_tie(ctx, 96 if quick else 1200)
    # leakage pass of _vnacal_new_solve_start_frequency (samples, vnlt_sum, vnlt_count, vnmm_m_matrix, saved terms)
    # against SolveSimple.leak_acc / leak_mean / m_adjusted / leak_terms (ocaml/drv_calcore3), exact
    calcore_num.leak_tie(ctx, 40 if quick else 400)
    # convert_ue14_to_e12 with its failure exit (um == 0.0 -> EDOM) against EndToEndE12Check.q_convert_checked
    # (harness/calcore_e12conv.c includes vnacal_new_solve.c; one Eval vm_compute for all cases)
    calcore_num.e12conv_tie(ctx, 30 if quick else 200)


# =============================================================================== main
def run(ctx):
    ctx.level = "proof"
    ctx.trusted_base = [
        "Coq 8.16.1 kernel; vm_compute for the bounded enumerations; no native_compute",
        "mathcomp (ssreflect, algebra) for the general-n matrix theorems",
        "translator translate/layout.py (C text -> Gallina), validated exhaustively for dims 1..6 against the compiled _vnacal_layout",
        "hand-written models coq/Cal/TermsModel.v, AddModel.v tied by exact structural correspondence with the library",
        "hand-written models coq/Cal/ApplyModel.v (fill_*), SolveSimple.v (leakage means, assembly, unity term, UE14->E12) tied by "
        "exact comparison of A, B / a_matrix, b_vector on dyadic inputs (lib/calcore_num.py, harness/calcore_apply.c, calcore_solve.c)",
        "symbolic layer coq/Cal/Sym.v (normal forms of rational functions) for fill_eq_spec, assembled_eq_matrix_cell, "
        "ue14_to_e12_sound only; fill_solves, assembled_row_is_equation_cell and the composition theorems do not use it",
        "LU / least-squares models coq/Lin/LuModel.v, LsSpec.v and their theorems (property C19)",
        "specification of the documented equations in coq/Cal/TermsSpec.v (hand-written from vnacal_layout.h)",
        "exact field arithmetic in place of binary64; LU/QR numerics and conditioning are outside every theorem",
        "OCaml extraction (ExtrOcamlBasic) and the glue in ocaml/glue.ml.inc; gcc, ASan/UBSan/LSan",
    ]
    ctx.assumptions = ["exact arithmetic stands for binary64 (rounding outside every theorem)",
                       "well-conditioned = coefficient matrices invertible in the exact model"]
    ctx.rule = ("one evaluation = one complete calibration scenario (random E-term network, random standards through "
                "random entry points / port maps / matrix shapes, solve, apply or saved-term check), one structural "
                "configuration compared exactly, or one numeric case (error terms + measurement through fill_* / apply; "
                "standards + measurements through the assembly of the linear systems) compared exactly with the "
                "extracted model; distinct non-trivial = scenarios that were accepted, solved and compared")
    exe = ctx.build_harness("calcore_e2e", san=True, wrap=True, defines=["CALCORE_WRAP"])
    e2e(ctx, exe)
    histories(ctx, exe)
    directed(ctx, exe)
    layout_part(ctx)
    structural(ctx, exe)
    numeric(ctx)
    coq_part(ctx)
