"""C02, Levenberg-Marquardt kernel: white-box per-pass dump of _vnacal_new_solve_auto
(harness/selfcal_wb_auto.c, WBK_DUMP) against coq/SelfCal/AutoKernelModel.v evaluated exactly over
Q[i] (ocaml/drv_autokernel.ml).

Every pass of the loop is replayed by the model from what the pass READ (the terms of every
equation with their separate factors, the weights, the correlated rows, the parameter vector) and
the following quantities are compared with what the C code COMPUTED:
    a_matrix, b_vector                      1e-12 relative (products of at most five factors)
    x_vector                                1e-9 relative to max |x|
    sum_k_squared, J^H J, J^H k             (J^H J and J^H k formed from the dumped j / k: they do not
                                             depend on the choice of Q2)
    d = J1 \\ k1 and the updated p           with the lambda of the C run
Tolerances: 1e-9 relative plus the propagated absolute error bound described at each comparison;
a pass is compared only when the condition estimates of A^H A and of J1 are below COND_MAX.
"""
import math
import os
from fractions import Fraction

import vplib
import selfcal_gen as G

COND_MAX = 1.0e5
REL = 1.0e-9
BITS = 8                    # measurements, known values and guesses are multiples of 2^-BITS (the exact
                            # model's rationals stay short; the data need not be consistent for this tie)
NPAR = 4                    # driver processes run side by side


def frac(x):
    f = Fraction(x)
    return "%d/%d" % (f.numerator, f.denominator)


def cq(z):
    return "%s %s" % (frac(z.real), frac(z.imag))


def _cvals(tokens):
    v = [float(t) for t in tokens]
    return [complex(v[i], v[i + 1]) for i in range(0, len(v), 2)]


def quantise_scenario(sc, bits=BITS):
    """round every non-integer number of the scenario text to a multiple of 2^-bits (so that the exact
    model works on short rationals); names and integer tokens are left alone"""
    k = float(1 << bits)
    out = []
    for line in sc.lines:
        toks = line.split(" ")
        head = toks[0]
        if head in ("begin", "cal", "newcal", "ptol", "ettol", "itlimit", "wb", "merror", "correlated", "pvalue"):
            out.append(line)
            continue
        new = []
        for t in toks:
            if any(c in t for c in ".e") and not t[0].isalpha():
                try:
                    x = float(t)
                except ValueError:
                    new.append(t)
                    continue
                if x == x and abs(x) < 1e6:
                    t = "%.17g" % (round(x * k) / k)
            new.append(t)
        out.append(" ".join(new))
    sc.lines = out
    return sc


def parse_passes(block):
    """white-box lines of one scenario -> list of passes (dicts)"""
    passes, cur = [], None
    want_p = None
    for line in block:
        p = line.split()
        if len(p) < 2:
            continue
        if p[0] == "wbk":
            if p[1] == "mat":
                name = p[2]
                if name == "a":
                    cur = {"mats": {}, "eqs": [], "eqvj": [], "corr": [], "ev": {}, "newp": None, "best": False, "reject": False,
                           "converged": False}
                    passes.append(cur)
                if cur is not None and name not in cur["mats"]:
                    cur["mats"][name] = _cvals(p[3:])
                if name == "d":
                    want_p = None
            elif cur is None:
                continue
            elif p[1] == "pass":
                cur["dims"] = dict(zip(("findex", "equations", "xlen", "plen", "correlated", "systems", "xl"),
                                       [int(x) for x in p[2:9]]))
            elif p[1] == "p":
                cur["p"] = _cvals(p[2:])
            elif p[1] == "eq":
                cur["eqs"].append(p[2:])
            elif p[1] == "eqvj":
                cur["eqvj"].append(p[4:])
            elif p[1] == "corr":
                cur["corr"].append(p[2:])
            elif p[1] == "det":
                cur["det"] = complex(float(p[2]), float(p[3]))
            elif p[1] == "qrarray":
                cur["qrarray"] = (int(p[2]), int(p[3]), _cvals(p[4:]))
            elif p[1] == "qmat":
                cur["qmat"] = (int(p[2]), _cvals(p[3:]))
        elif p[0] == "wb" and cur is not None:
            if p[1] == "pstart":
                if "d" in cur["mats"] and cur["newp"] is None:
                    cur["newp"] = []
                    want_p = cur
                else:
                    want_p = None
            elif p[1] == "p" and want_p is not None:
                want_p["newp"].append(complex(float(p[2]), float(p[3])))
            elif p[1] == "ev":
                if p[2] in ("best", "reject"):
                    cur[p[2]] = True
                elif p[2] == "converged":
                    cur["converged"] = True
                elif len(p) > 3:
                    cur["ev"][p[2]] = float(p[3])
    return passes


def kpass_line(ps):
    """driver input for one pass"""
    d = ps["dims"]
    nsys = d["systems"]
    per = [[] for _ in range(nsys)]
    vjs = ps["eqvj"] if len(ps["eqvj"]) == len(ps["eqs"]) else [None] * len(ps["eqs"])
    for e, vj in zip(ps["eqs"], vjs):
        per[int(e[0])].append((e[1:], vj))
    out = ["kpass", str(d["xl"]), str(d["plen"]), str(nsys)]
    for eqs in per:
        out.append(str(len(eqs)))
        for e, vj in eqs:
            i = 0
            jv = 0
            if e[i] == "-":
                out.append("-")
            else:
                out.append(frac(float(e[i])))
            i += 1
            nt = int(e[i])
            i += 1
            out.append(str(nt))
            for _ in range(nt):
                out.append(e[i])            # neg
                i += 1
                if e[i] == "-":             # m
                    out.append("-")
                    i += 1
                else:
                    out.append(cq(complex(float(e[i]), float(e[i + 1]))))
                    i += 2
                if e[i] == "-":             # s
                    out.append("-")
                    i += 1
                elif e[i] == "U":
                    out += ["U", e[i + 1]]
                    i += 2
                else:
                    out += ["K", cq(complex(float(e[i + 1]), float(e[i + 2])))]
                    i += 3
                if e[i] == "-":             # v (first walk)
                    out.append("-")
                    i += 1
                else:
                    out.append(cq(complex(float(e[i]), float(e[i + 1]))))
                    i += 2
                if vj is None or vj[jv] == "-":         # v (second walk)
                    out.append("-")
                    jv += 1
                else:
                    out.append(cq(complex(float(vj[jv]), float(vj[jv + 1]))))
                    jv += 2
                out.append(e[i])            # xindex or -
                i += 1
    out.append(str(len(ps["corr"])))
    for c in ps["corr"]:
        out += [frac(float(c[0])), c[1]]
        if c[2] == "U":
            out += ["U", c[3]]
        else:
            out += ["K", cq(complex(float(c[3]), float(c[4])))]
    out += [cq(z) for z in ps["p"]]
    return " ".join(out)


def parse_kpass(line):
    p = line.split()
    if p[:2] == ["kpass", "none"]:
        return None
    m = int(p[1].split("=")[1])
    n = int(p[2].split("=")[1])
    res = {"m": m, "n": n}
    i = 3
    keys = ("a", "b", "x", "jtj", "jtk", "sumk")
    while i < len(p):
        k = p[i]
        i += 1
        j = i
        while j < len(p) and p[j] not in keys:
            j += 1
        res[k] = p[i:j]
        i = j
    return res


def qvals(tokens):
    """exact rational strings -> complex floats"""
    v = [Fraction(t) for t in tokens]
    return [complex(float(v[i]), float(v[i + 1])) for i in range(0, len(v), 2)]


def herm_prod(j, k, rows, ca, cb):
    """(rows x ca)^H (rows x cb), row-major flat lists"""
    return [sum(j[r * ca + a].conjugate() * k[r * cb + b] for r in range(rows)) for a in range(ca) for b in range(cb)]


def fro(v):
    return math.sqrt(sum(abs(z) ** 2 for z in v))


def unflat(v, r, c):
    return [[v[i * c + j] for j in range(c)] for i in range(r)]


def first_diff(got, want, tol):
    for i, (g, w) in enumerate(zip(got, want)):
        if not abs(g - w) <= tol:
            return i, g, w
    if len(got) != len(want):
        return -1, len(got), len(want)
    return None


def run_driver(drv, lines, timeout):
    """feed the lines to NPAR driver processes; returns (rc, list of output lines in input order, stderr)"""
    import subprocess
    chunks = [lines[i::NPAR] for i in range(NPAR)]
    procs = []
    for ch in chunks:
        if not ch:
            procs.append(None)
            continue
        pr = subprocess.Popen(["timeout", str(int(timeout)), drv], stdin=subprocess.PIPE, stdout=subprocess.PIPE,
                              stderr=subprocess.PIPE)
        procs.append(pr)
    import threading
    outs = [None] * NPAR

    def feed(i, pr, ch):
        o, e = pr.communicate(("\n".join(ch) + "\n").encode())
        outs[i] = (pr.returncode, o.decode("utf-8", "replace").splitlines(), e.decode("utf-8", "replace"))
    th = []
    for i, (pr, ch) in enumerate(zip(procs, chunks)):
        if pr is not None:
            t = threading.Thread(target=feed, args=(i, pr, ch))
            t.start()
            th.append(t)
    for t in th:
        t.join()
    res = [None] * len(lines)
    rc, err = 0, ""
    for i, ch in enumerate(chunks):
        if not ch:
            continue
        r, o, e = outs[i]
        if r != 0 or len(o) != len(ch):
            rc = r or 1
            err += e[-200:]
            continue
        for k, ol in enumerate(o):
            res[i + k * NPAR] = ol
    return rc, res, err


def part_kernel_tie(ctx, rec, wb, drv, ncases):
    """returns True when every compared pass agrees.  Pass 0 of every scenario is compared; a second
    pass (the parameter vector is then a full binary64 value, which makes the exact model slow) only
    for the one-port calibrations with a single unknown parameter."""
    rng = ctx.rng
    scs = []
    shapes = [("T8", 1), ("U8", 1), ("TE10", 1), ("UE10", 1), ("UE14", 1), ("E12", 1), ("T16", 1), ("U16", 1),
              ("T8", 2), ("U8", 2), ("UE14", 2), ("E12", 2), ("TE10", 2), ("UE10", 2)]
    for k in range(ncases):
        typ, n = shapes[k % len(shapes)] if k < len(shapes) else rng.choice(shapes)
        # unknown / correlated counts and the partner of the correlated parameter (another unknown, or a
        # known value) cycle deterministically so that every quick run has each kind
        nu, nc, known_base = [(1, 0, False), (1, 1, False), (2, 0, False), (1, 1, True), (2, 1, False)][k % 5]
        radius = rng.choice([0.02, 0.1, 0.1, 0.5, 1.5])           # large radii provoke rejected steps
        sc = G.build_general(rng, "kern_%d" % k, typ, n, 1, nu, nc, radius=radius, excess=rng.choice([1, 2, 3]),
                             corr_known_base=known_base)
        quantise_scenario(sc)
        sc.cmd("ptol 1e-6")
        sc.cmd("ettol 1e-6")
        sc.cmd("itlimit %d" % rng.choice([3, 6, 30]))
        if k % 4 == 3:
            # weights and V matrices are inputs of the pass.  sigma_nf = 2^-10, sigma_tr = 0: every
            # weight is exactly 1024 (the exact model is slow on 53-bit weights); a general error
            # model only for one-port cases of the thorough tier
            if ctx.tier != "quick" and n == 1 and k % 8 == 7:
                sc.cmd("merror 1 - 1e-3 1e-2")
            else:
                sc.cmd("merror 1 - 0.0009765625 0")
            sc.meta["merror"] = True
        sc.cmd("wb 0 1 0")
        sc.solve()
        scs.append(sc)
    env = G.run_env(ctx)
    env["WBK_DUMP"] = "1"
    rc, out, err = vplib.sh([wb], input="".join(s.text() for s in scs), timeout=120 + 10 * len(scs), env=env)
    if rc != 0:
        sig = vplib.asan_signature(err) or {"kind": "fault", "error": "exit %d" % rc, "function": None}
        if rc == 124:
            sig = {"kind": "timeout", "where": "white-box solve_auto (kernel dump)"}
        rec.add(sig, "white-box run of _vnacal_new_solve_auto (kernel dump) failed: %s" % err[-300:], None, {"stderr": err})
        ctx.obligation("tie:lm_kernel_pass_vs_AutoKernelModel", False, "white-box harness failed")
        return False
    blocks, cur = {}, None
    for line in out.splitlines():
        if line.startswith("begin "):
            cur = line.split()[1]
            blocks[cur] = []
        elif cur is not None:
            blocks[cur].append(line)
    jobs = []                       # (sc, pass index, pass, driver line)
    for sc in scs:
        passes = parse_passes(blocks.get(sc.sid, []))
        two = sc.n == 1 and not sc.meta.get("merror") and sc.meta.get("n_unknown", 0) + sc.meta.get("n_corr", 0) == 1
        for i, ps in enumerate(passes[:(2 if two else 1)]):
            if "dims" not in ps or "x" not in ps["mats"]:
                continue
            jobs.append((sc, i, ps, kpass_line(ps)))
    # the Q-forming loop of _vnacommon_qr and the Q2^H accumulation (AutoKernelQrQ.v): the model's Q from
    # the array _vnacommon_qrd left (a rational function of it) against the C matrix, and q2h of it on
    # b_vector against the upper rows of k_vector; one-port calibrations (m x m exact arithmetic)
    qjobs = []
    for sc, i, ps, _ in jobs:
        if sc.n == 1 and i == 0 and "qrarray" in ps and "qmat" in ps and "k" in ps["mats"] and len(qjobs) < 3:
            m_, n_, arr = ps["qrarray"]
            qjobs.append((sc, ps, "formq %d %d %s %s" % (m_, n_, " ".join(cq(z) for z in arr),
                                                          " ".join(cq(z) for z in ps["mats"]["b"]))))
    rc, mlines, merr = run_driver(drv, [j[3] for j in jobs] + [j[2] for j in qjobs], 900)
    qlines = mlines[len(jobs):]
    mlines = mlines[:len(jobs)]
    qbad = None
    nq = 0
    if rc == 0 and all(x is not None and x.startswith("formq") for x in qlines):
        for (sc, ps, _), ql in zip(qjobs, qlines):
            t = ql.split()
            kpos = t.index("k")
            q_m, k_m = qvals(t[2:kpos]), qvals(t[kpos + 1:])
            m_, q_c = ps["qmat"]
            n_ = ps["qrarray"][1]
            bq = first_diff(q_m, q_c, 1e-12)
            # q2h is evaluated on the model's Q: it agrees with the C Q to 1e-12, b is O(1)
            bkk = first_diff(k_m, ps["mats"]["k"][:m_ - n_], 1e-11 * max([abs(z) for z in ps["mats"]["b"]] + [1.0]))
            nq += 1
            if bq:
                qbad = (sc, "Q of _vnacommon_qr [%d]: model %r, C %r" % bq)
            elif bkk:
                qbad = (sc, "k_vector[%d] = (Q2^H b): model %r, C %r" % bkk)
            if qbad:
                break
    else:
        qbad = (None, "driver (formq) rc=%d %s" % (rc, merr[-200:]))
    ctx.obligation("tie:qr_formq_and_q2h_vs_AutoKernelQrQ", qbad is None and nq > 0,
                   "" if qbad is None else ("%s: %s" % (qbad[0].sid if qbad[0] else "-", qbad[1])))
    if qbad is not None and qbad[0] is not None:
        rec.add({"kind": "disagreement", "op": "_vnacommon_qr", "class": "Q matrix / Q2^H product"},
                "AutoKernelQrQ model and the code disagree: %s: %s" % (qbad[0].sid, qbad[1]), qbad[0], None)
    if rc != 0 or any(x is None or not x.startswith("kpass") for x in mlines):
        ctx.obligation("tie:lm_kernel_pass_vs_AutoKernelModel", False,
                       "driver rc=%d lines=%d jobs=%d %s" % (rc, len(mlines), len(jobs), merr[-200:]))
        return False
    bad = None
    compared = skipped = 0
    steps = []                      # (sc, i, ps, model result, pl, tolerance data)
    best_model = {}
    for (sc, i, ps, _), ml in zip(jobs, mlines):
        mr = parse_kpass(ml)
        d = ps["dims"]
        m, n, pl = d["equations"], d["xlen"], d["plen"]
        mats = ps["mats"]
        why = None
        if mr is None:
            why = "model: rank deficient, C: solved"
        else:
            a_c, b_c, x_c = mats["a"], mats["b"], mats["x"]
            a_m, b_m, x_m = qvals(mr["a"]), qvals(mr["b"]), qvals(mr["x"])
            amax = max([abs(z) for z in a_c] + [1.0])
            bad_a = first_diff(a_m, a_c, 1e-12 * amax)
            bad_b = first_diff(b_m, b_c, 1e-12 * max([abs(z) for z in b_c] + [1.0]))
            if bad_a:
                why = "a_matrix[%d]: model %r, C %r" % bad_a
            elif bad_b:
                why = "b_vector[%d]: model %r, C %r" % bad_b
        if why is None:
            # conditioning filter: A^H A from the C matrix
            ata = unflat(herm_prod(a_c, a_c, m, n, n), n, n)
            cond_a = G.cond_est(ata)
            if not cond_a < COND_MAX:
                skipped += 1
                best_model.pop(sc.sid, None) if ps["best"] else None
                continue
            normb = fro(b_c)
            xmax = max([abs(z) for z in x_c] + [1e-300])
            bx = first_diff(x_m, x_c, REL * xmax)
            if bx:
                why = "x_vector[%d]: model %r, C %r" % bx
        if why is None and "j" in mats and "k" in mats:
            jr = len(mats["k"])
            j_c, k_c = mats["j"], mats["k"]
            jtj_c = herm_prod(j_c, j_c, jr, pl, pl)
            jtk_c = herm_prod(j_c, k_c, jr, pl, 1)
            normj, normk = fro(j_c), fro(k_c)
            # error of k: eta ~ REL * |b| (and the correlated rows); of J: REL * |J|
            eta = REL * max(normb, 1e-300)
            sumk_m = float(Fraction(mr["sumk"][0]))
            sumk_c = ps["ev"].get("sum_k")
            jtj_m, jtk_m = qvals(mr["jtj"]), qvals(mr["jtk"])
            bj = first_diff(jtj_m, jtj_c, REL * max(normj * normj, 1e-300))
            bk = first_diff(jtk_m, jtk_c, REL * normj * (normk + normb) + 1e-300)
            if sumk_c is not None and not abs(sumk_m - sumk_c) <= REL * sumk_c + 2 * math.sqrt(sumk_c) * eta + eta * eta:
                why = "sum_k_squared: model %r, C %r" % (sumk_m, sumk_c)
            elif bj:
                why = "J^H J[%d]: model %r, C %r" % bj
            elif bk:
                why = "J^H k[%d]: model %r, C %r" % bk
            else:
                if ps["best"]:
                    # the step is evaluated at the model's J^H J and J^H k rounded to binary64 (the exact
                    # values are very long rationals; the rounding is 1e-16 relative, far below REL / cond)
                    best_model[sc.sid] = ([frac(x) for z in jtj_m for x in (z.real, z.imag)],
                                          [frac(x) for z in jtk_m for x in (z.real, z.imag)],
                                          ps["p"], normj, normk, normb)
                bm = best_model.get(sc.sid)
                lam = ps["ev"].get("lambda")
                if bm is not None and lam is not None and "j1" in mats and "d" in mats and ps["newp"]:
                    steps.append((sc, i, ps, bm, pl, lam))
        compared += 1
        ctx.count(("kernelpass", sc.meta.get("type"), sc.meta.get("n"), pl, d["correlated"], bool(sc.meta.get("merror")),
                   ps["best"]))
        ctx.traces_validated += 1
        if why and bad is None:
            bad = (sc, i, why)
    # the step: d = J1 \ k1 with the lambda of the C run, and p - d
    lines = []
    for sc, i, ps, bm, pl, lam in steps:
        lines.append("kstep %d %s %s %s %s" % (pl, " ".join(bm[0]), " ".join(bm[1]), frac(lam),
                                                " ".join(cq(z) for z in bm[2])))
    nstep = 0
    if lines and bad is None:
        rc, slines, serr = run_driver(drv, lines, 600)
        if rc != 0 or any(x is None or not x.startswith("kstep") for x in slines):
            ctx.obligation("tie:lm_kernel_pass_vs_AutoKernelModel", False,
                           "driver (kstep) rc=%d lines=%d jobs=%d %s" % (rc, len(slines), len(steps), serr[-200:]))
            return False
        for (sc, i, ps, bm, pl, lam), sl in zip(steps, slines):
            mats = ps["mats"]
            j1 = unflat(mats["j1"], pl, pl)
            cond_j = G.cond_est(j1)
            if not cond_j < COND_MAX:
                skipped += 1
                continue
            inv = G.minv(j1)
            ninv = pl * max(abs(z) for r in inv for z in r)
            normj, normk, normb = bm[3], bm[4], bm[5]
            p_ = sl.split()
            if p_[1] == "none":
                bad = (sc, i, "step: model refuses (singular), C: determinant %r accepted" % (ps.get("det"),))
                break
            k_ = p_.index("p")
            d_m, p_m = qvals(p_[2:k_]), qvals(p_[k_ + 1:])
            d_c, p_c = mats["d"], ps["newp"]
            dmax = max([abs(z) for z in d_c] + [0.0])
            tol = REL * dmax + ninv * REL * normj * (normk + normb) + 1e-300
            bd = first_diff(d_m, d_c, tol)
            bp = first_diff(p_m, p_c, tol + REL * max([abs(z) for z in p_c] + [1.0]))
            nstep += 1
            if bd:
                bad = (sc, i, "d_vector[%d]: model %r, C %r" % bd)
                break
            if bp:
                bad = (sc, i, "updated p[%d]: model %r, C %r" % bp)
                break
    ctx.extra["lm_kernel_tie"] = {"passes_compared": compared, "steps_compared": nstep, "skipped_ill_conditioned": skipped}
    ok = bad is None and compared > 0
    detail = ""
    if bad:
        sc, i, why = bad
        detail = "%s pass %d: %s" % (sc.sid, i, why)
        rec.add({"kind": "disagreement", "op": "_vnacal_new_solve_auto", "class": "kernel pass",
                 "quantity": why.split(":")[0].split("[")[0]},
                "AutoKernelModel and one pass of _vnacal_new_solve_auto disagree: " + detail, sc, None,
                extra={"pass": i, "type": sc.meta.get("type")})
    elif compared == 0:
        detail = "no pass passed the conditioning filter"
    ctx.obligation("tie:lm_kernel_pass_vs_AutoKernelModel", ok, detail)
    return ok
